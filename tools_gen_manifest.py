#!/usr/bin/env python3
"""regenerates MANIFEST.json from vf/props.py (kept valid at all times)"""
import json, sys, os
sys.path.insert(0, os.path.dirname(os.path.abspath(__file__)))
from vf import props as PR
ALL = [f"C{i:02d}" for i in range(1, 21)]
LEVEL_TEXT = {
 "proof": "Every deciding obligation is a verification condition generated from the current source of the functions under contract and discharged by the SMT solver for all inputs (symbolic values, units, series, list lengths; loops by invariants). The bounded twin only validates the trusted library contracts and replays counterexamples; it is reported separately and never counted as proved.",
 "other": "Mixed: the per-function clauses are verification conditions generated from the current source and discharged by the SMT solver (counted as obligations/discharged); the clauses that quantify over whole-model histories / floating point / library data are decided by a bounded run-time twin of the same contracts on the real code (counted under coverage.bounded, never as proved).",
}
checks = []
for pid in ALL:
    if pid not in PR.PROPS: continue
    c = PR.PROPS[pid]
    checks.append({"property_id": pid, "quick_cmd": f"./check {pid} --tier quick", "thorough_cmd": f"./check {pid} --tier thorough",
                   "evidence_file": f"evidence/{pid}.json", "replay_cmd_template": f"./check {pid} --replay {{path}}", "engine": "vf",
                   "level_claimed": {"category": c["level"], "text": LEVEL_TEXT[c["level"]] + " " + c["technique"], "design_ref": c["design"]},
                   "level_note": "Trusted: z3/cvc5, the VC generator vf/ (AST->SMT), library contracts in vf/libspec.py (validated, not proved), floats as reals, stated input invariants; see evidence.assumptions.",
                   "technique": "contract-based deductive verification: " + c["technique"][:160]})
na = [{"property_id": p, "reason": PR.NOT_BUILT.get(p, "check not built yet (work in progress, see DESIGN.md section 7)")} for p in ALL if p not in PR.PROPS]
m = {"version": 1, "setup_cmd": "./setup.sh",
     "hooks": {"guard": "EFOOTPRINT_VERIF", "enable": "no hooks: contracts are sidecar files under /verif/vf/contracts, /repo is not edited for verification (only unguarded 'fix:' commits)",
               "baseline_off_cmd": "cd /repo && /venv/bin/python -m pytest -ra -q -p no:cacheprovider --timeout=900 --continue-on-collection-errors",
               "source_commits": [], "add_only": True},
     "engines": [{"name": "vf", "path": "vf/", "serves_properties": [c["property_id"] for c in checks],
                  "kind_free_text": "AST->SMT verification-condition generator with sidecar contracts (symbolic execution of the real function bodies over abstract views, ghost recursive sums, loop invariants), z3 (cvc5 for unknowns); run-time twin of the contracts on real objects for the bounded stand-in and replay"}],
     "checks": checks, "notes": "See DESIGN.md. Known findings: known_findings.json. P (proved) and B (bounded) are never mixed in the evidence counts.",
     "not_applicable": na}
json.dump(m, open(os.path.join(os.path.dirname(os.path.abspath(__file__)), "MANIFEST.json"), "w"), indent=1)
print(len(checks), "checks,", len(na), "not applicable")
