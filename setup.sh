#!/bin/bash
# Builds the overlay interpreter /verif/.venv: Python 3.12 + z3-solver/cvc5/crosshair/jsonschema from the offline
# wheelhouse, plus a .pth that makes /venv's site-packages (pandas, pint, ... = the repository's dependencies) visible.
set -e
cd "$(dirname "$0")"
PY=/root/.pyenv/versions/3.12.1/bin/python
[ -x "$PY" ] || PY=$(readlink -f /venv/bin/python)
if [ ! -x .venv/bin/python ] || ! .venv/bin/python -c "import z3, pandas, pint, jsonschema" 2>/dev/null; then
  rm -rf .venv
  "$PY" -m venv .venv
  PIP_NO_INDEX=1 .venv/bin/pip install -q --no-index --find-links /opt/veriftools/wheels z3-solver cvc5 jsonschema hypothesis crosshair-tool >/dev/null
  echo "import site; site.addsitedir('/venv/lib/python3.12/site-packages')" > .venv/lib/python3.12/site-packages/zz_repo_deps.pth
fi
.venv/bin/python -c "import z3, cvc5, pandas, pint, jsonschema; print('overlay venv ok: z3', z3.get_version_string(), 'pandas', pandas.__version__, 'pint', pint.__version__)"
