#!/bin/bash
# tools/selftest.sh : the proof engine against hand-written breaking changes of the functions under contract (selftest/*.diff).
# Each patch is applied in a scratch worktree (never in /repo); the proof jobs named by the patch's prefix are run through VF_REPO;
# a patch whose jobs are ALL still proved means the engine has gone blind there -> exit 1.
cd /verif
declare -A SEL=( [graph]="graph:" [lookup]="lookup:" [dict]="_per_usage_pattern" [across]="across_usage_patterns" [boavizta]="BoaviztaCloudServer" )
rc=0
for d in selftest/*.diff; do
  id=$(basename $d .diff); pre=${id%%-*}; wt=/tmp/selftest_$id
  rm -rf $wt; git -C /repo worktree add -q --detach $wt HEAD || exit 2
  (cd $wt && git apply /verif/$d) || { echo "$id: patch does not apply"; git -C /repo worktree remove --force $wt; rc=1; continue; }
  out=$(VF_REPO=$wt PYTHONPATH=$wt:/verif .venv/bin/python - "${SEL[$pre]}" <<'PY'
import sys, collections
sys.path.insert(0, '/verif')
from vf import jobs
names = [j for j, _ in jobs.list_jobs() if sys.argv[1] in j]
c = collections.Counter()
for r in jobs.run_jobs(names, procs=8):
    if r["error"]: c["error"] += 1
    for o in r["obligations"]:
        if o["kind"] != "cover": c[o["status"]] += 1
print(dict(c))
PY
)
  git -C /repo worktree remove --force $wt
  if echo "$out" | grep -q "refuted\|undecided\|unknown"; then echo "$id: noticed $out"; else echo "$id: NOT NOTICED $out"; rc=1; fi
done
exit $rc
