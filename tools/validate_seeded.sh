#!/bin/bash
# tools/validate_seeded.sh <mutant dir> : re-validate one seeded change against the CURRENT /repo HEAD in a scratch worktree
# (patch applies, pinned suite still passes, demonstration fails with the change and passes without), then run our check on /repo.
set -u
src=$1; id=$(basename $src); prop=${id%-*}
wt=/tmp/seedwt/$id
rm -rf $wt; mkdir -p /tmp/seedwt
git -C /repo worktree add -q --detach $wt HEAD || exit 2
res="{}"
cd $wt
if ! git apply --check $src/patch.diff 2>/dev/null; then echo "$id: patch does not apply to current HEAD"; git -C /repo worktree remove --force $wt; exit 1; fi
PYTHONPATH=$wt /venv/bin/python $src/demo.py >/tmp/seedwt/$id.demo_clean.log 2>&1; clean=$?
git apply $src/patch.diff
/verif/tools/baseline_check.py $wt >/tmp/seedwt/$id.baseline.log 2>&1; base=$?
PYTHONPATH=$wt /venv/bin/python $src/demo.py >/tmp/seedwt/$id.demo_mut.log 2>&1; mut=$?
cd /; git -C /repo worktree remove --force $wt
echo "$id: baseline_rc=$base demo_on_changed_rc=$mut demo_on_unchanged_rc=$clean"
