#!/bin/bash
# tools/eval_seeded.sh <mutant dir> [PROP...] : run our checks against one seeded change in a scratch worktree (VF_REPO), never in /repo
src=$1; shift; id=$(basename $src); prop=${id%-*}
props=${@:-$prop}
wt=/tmp/seedeval/$id; rm -rf $wt; mkdir -p /tmp/seedeval
git -C /repo worktree add -q --detach $wt HEAD || exit 2
(cd $wt && git apply $src/patch.diff) || { echo "$id: patch does not apply"; git -C /repo worktree remove --force $wt; exit 1; }
for p in $props; do
  out=$(cd /verif && VF_REPO=$wt ./check $p $CHECK_ARGS 2>&1); rc=$?
  echo "$id $p rc=$rc :: $(echo "$out" | grep -m1 -A1 '^VIOLATION' | tr '\n' ' ' | cut -c1-300) :: $(echo "$out" | tail -1 | cut -c1-160)"
done
git -C /repo worktree remove --force $wt
