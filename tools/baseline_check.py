#!/venv/bin/python
"""usage: baseline_check.py <repo_dir>  -- runs the pinned pytest suite in <repo_dir> and checks that all 284 stable tests pass."""
import json, subprocess, sys, tempfile, os, xml.etree.ElementTree as ET
repo = os.path.abspath(sys.argv[1])
base = json.load(open('/root/.vp/BASELINE.json'))
stable = set(base['stable_pass'])
with tempfile.TemporaryDirectory() as td:
    x = os.path.join(td, 'j.xml')
    env = dict(os.environ); env.pop('PYTHONPATH', None)
    p = subprocess.run(['/venv/bin/python', '-m', 'pytest', '-q', '-p', 'no:cacheprovider', '--timeout=900',
                        '--continue-on-collection-errors', f'--junitxml={x}'], cwd=repo, env=env,
                       stdout=subprocess.PIPE, stderr=subprocess.STDOUT, text=True)
    passed = set()
    for tc in ET.parse(x).getroot().iter('testcase'):
        if not any(c.tag in ('failure', 'error', 'skipped') for c in tc):
            passed.add(f"{tc.get('classname')}::{tc.get('name')}")
missing = sorted(stable - passed)
print(f"stable baseline tests passing: {len(stable & passed)}/{len(stable)}")
for m in missing: print("  NOT PASSING:", m)
sys.exit(0 if not missing else 1)
