#!/bin/bash
# tools/try_mutant.sh <patch.diff> <PROP> [PROP...] : apply a seeded change to /repo, run the checks, undo it
patch=$1; shift
cd /repo && git diff --quiet || { echo "/repo is dirty"; exit 2; }
git apply --check "$patch" 2>/dev/null || { echo "patch does not apply"; exit 2; }
git apply "$patch"
cd /verif
for p in "$@"; do ./check $p ${TIER:+--tier $TIER} 2>&1 | grep -v "^KNOWN-FINDING" | tail -${LINES_OUT:-6}; echo "   -> $p rc=${PIPESTATUS[0]}"; done
git -C /repo checkout -- .
