#!/usr/bin/env python3
"""collect validated seeded changes into /verif/seeded/<id>/ (patch.diff, demo.py, meta.json)"""
import json, os, re, shutil, sys
SRC = sys.argv[1] if len(sys.argv) > 1 else "/tmp/mut/out"
VLOG = sys.argv[2] if len(sys.argv) > 2 else "/tmp/seedwt_validate.log"
ELOG = sys.argv[3] if len(sys.argv) > 3 else "/tmp/seedeval_results.log"
ROUND = sys.argv[4] if len(sys.argv) > 4 else "1"
val = {}
for l in open(VLOG):
    m = re.match(r"(C\d+-\d+): baseline_rc=(\d+) demo_on_changed_rc=(\d+) demo_on_unchanged_rc=(\d+)", l)
    if m: val[m.group(1)] = tuple(int(x) for x in m.groups()[1:])
ev = {}
for l in open(ELOG):
    m = re.match(r"(C\d+-\d+) (C\d+) rc=(\d+) :: (.*?) :: (.*)", l)
    if m and (m.group(1) not in ev or m.group(2) == m.group(1).split("-")[0]):
        ev[m.group(1)] = {"check": m.group(2), "rc": int(m.group(3)), "first_violation": m.group(4).strip()[:400], "summary": m.group(5).strip()}
props = {json.loads(l)["id"]: json.loads(l) for l in open("/verif/properties.jsonl")}
kept, dropped = [], []
for mid in sorted(val):
    b, mc, cl = val[mid]
    ok = b == 0 and mc != 0 and cl == 0
    if not ok:
        dropped.append((mid, val[mid])); continue
    d = f"/verif/seeded/{mid}"
    os.makedirs(d, exist_ok=True)
    shutil.copy(f"{SRC}/{mid}/patch.diff", d); shutil.copy(f"{SRC}/{mid}/demo.py", d)
    notes = open(f"{SRC}/{mid}/notes.md").read()
    e = ev.get(mid, {})
    meta = {"id": mid, "property": mid.split("-")[0], "property_title": props[mid.split("-")[0]]["title"],
            "what_it_needs_to_manifest": notes[:1800],
            "confirmed_by_me": {"worktree": "scratch worktree of /repo HEAD (after the fix: commits), removed afterwards",
                                "pinned_suite_with_change": "284/284 stable tests pass (tools/validate_seeded.sh -> /root/scratch/tools/baseline_check.py)",
                                "demo_with_change_exit": mc, "demo_without_change_exit": cl},
            "our_check": {"command": f"VF_REPO=<worktree with the change> ./check {e.get('check')}", "exit": e.get("rc"), "detected": e.get("rc") == 1,
                          "first_violation_line": e.get("first_violation"), "summary": e.get("summary")},
            "round": int(ROUND),
            "origin": "written by an independent sub-agent that saw only the property text and its own worktree"}
    if os.path.exists(f"{SRC}/{mid}/patch_original.diff"):
        meta["note"] = "the sub-agent's patch was rebased by hand onto the tree after the list-mutator fix (same one-line change: pop() no longer detaches the live list)"
    json.dump(meta, open(f"{d}/meta.json", "w"), indent=1)
    kept.append(mid)
print("kept", len(kept), "dropped", dropped)
