"""AST interpreter over the symbolic domain (numeric profile).  Python subset and assumed semantics: DESIGN.md 2.4."""
from __future__ import annotations
import ast, math
import z3
from .sym import *
from .engine import Engine, SymRaise, Unsupported, Abort, ReturnEx, ContinueEx, BreakEx, TT
from . import libspec as L
from .extract import extract


class Builtin:
    def __init__(self, name): self.name = name
    def __repr__(self): return f"<builtin {self.name}>"


class BoundMethod:
    def __init__(self, recv, name): self.recv, self.name = recv, name


class ClassRef:
    """reference to a repo class by simple name (constructor calls, isinstance)"""
    def __init__(self, name): self.name = name
    def __repr__(self): return f"<class {self.name}>"


class PyStr(str):
    pass


class Uninit:
    """result of cls.__new__(cls): becomes the object built by the following __init__ call"""
    def __init__(self, cname): self.cname, self.obj = cname, None


class Series:
    """df['value']"""
    def __init__(self, df: DF): self.df = df


class PintAccessor:
    def __init__(self, series): self.series = series


class TS:
    """pandas Timestamp view: tick"""
    def __init__(self, tick): self.tick = tick


class Mask:
    def __init__(self, f, origin): self.f, self.origin = f, origin


class ILoc:
    def __init__(self, target, kind): self.target, self.kind = target, kind


class SDict:
    """python dict with concrete keys"""
    def __init__(self, d=None): self.d = dict(d or {})


KIND_CLASS = {"empty": "EmptyExplainableObject", "eq": "ExplainableQuantity", "ehq": "ExplainableHourlyQuantities",
              "eo": "ExplainableObject"}
EXPL_CLASSES = {"EmptyExplainableObject": "empty", "ExplainableQuantity": "eq", "ExplainableHourlyQuantities": "ehq",
                "ExplainableObject": "eo", "SourceValue": "eq", "SourceHourlyValues": "ehq", "SourceObject": "eo"}
# subclass relation among the explainable classes (read from the real classes by tests/validate; fixed here)
EXPL_ISA = {"empty": {"EmptyExplainableObject", "ExplainableObject", "ObjectLinkedToModelingObj"},
            "eq": {"ExplainableQuantity", "ExplainableObject", "ObjectLinkedToModelingObj"},
            "ehq": {"ExplainableHourlyQuantities", "ExplainableObject", "ObjectLinkedToModelingObj"},
            "eo": {"ExplainableObject", "ObjectLinkedToModelingObj"}}

BUILTIN_NAMES = {"isinstance", "len", "sum", "range", "round", "getattr", "int", "float", "map", "list", "set", "max",
                 "min", "all", "any", "copy", "str", "type", "abs", "enumerate", "zip", "sorted", "dict", "print",
                 "ValueError", "PermissionError", "NotImplementedError", "AssertionError", "KeyError", "TypeError",
                 "AttributeError", "math", "np", "pd", "pint_pandas", "numbers", "u", "re", "logger", "timedelta",
                 "datetime", "PintArray", "issubclass", "id", "hasattr", "tuple", "bool"}


class Interp:
    def __init__(self, eng: Engine, units, specs=None, world=None, module_globals=None):
        self.eng = eng
        self.units = units          # vf.units.Units: literal units from the real registry
        self.specs = specs or {}    # (classname, method) -> spec callable(interp, recv, args, kwargs)
        self.world = world
        self.loop_specs = {}        # ordinal -> LoopSpec (for the function currently executed)
        self.loop_counter = None
        self.hooks = {}
        self.fn_stack = []
        self.module_globals = module_globals or {}
        self.inline_depth = 0
        self._last_fmt = None

    # ================================================================== function execution
    def exec_function(self, fdef: ast.FunctionDef, args, kwargs=None, loop_specs=None, qualname=None, ghost=None):
        """execute a real function body on symbolic arguments; returns the returned value (NONE if none)"""
        kwargs = kwargs or {}
        env = {}
        params = fdef.args
        names = [a.arg for a in params.posonlyargs + params.args]
        defaults = params.defaults
        for i, n in enumerate(names):
            if i < len(args): env[n] = args[i]
            elif n in kwargs: env[n] = kwargs[n]
            else:
                di = i - (len(names) - len(defaults))
                if di < 0: raise Unsupported(f"missing argument {n} of {fdef.name}")
                env[n] = self.eval(defaults[di], {})
        for k, d in zip(params.kwonlyargs, params.kw_defaults):
            env[k.arg] = kwargs[k.arg] if k.arg in kwargs else self.eval(d, {})
        env.update(ghost or {})       # ghost state of a verification harness (names that no python identifier can take)
        saved = (self.loop_specs, self.loop_counter)
        fors = sorted([n for n in ast.walk(fdef) if isinstance(n, ast.For)], key=lambda n: (n.lineno, n.col_offset))
        # loop ordinals are SYNTACTIC (source order), so a contract stays bound whichever path reaches the loop
        self.loop_specs, self.loop_counter = (loop_specs or {}), {id(n): k for k, n in enumerate(fors)}
        self.fn_stack.append(qualname or fdef.name)
        try:
            self.exec_block(fdef.body, env)
            return NONE
        except ReturnEx as r:
            return r.value.obj if isinstance(r.value, Uninit) and r.value.obj is not None else r.value
        finally:
            self.fn_stack.pop()
            self.loop_specs, self.loop_counter = saved

    def exec_block(self, stmts, env):
        for s in stmts:
            self.exec_stmt(s, env)

    # ================================================================== statements
    def exec_stmt(self, s, env):
        m = getattr(self, "st_" + type(s).__name__, None)
        if m is None:
            raise Unsupported(f"statement {type(s).__name__} at line {s.lineno}")
        return m(s, env)

    def st_Expr(self, s, env):
        if isinstance(s.value, ast.Constant): return   # docstring
        self.eval(s.value, env)

    def st_Pass(self, s, env): pass

    def st_Return(self, s, env):
        raise ReturnEx(self.eval(s.value, env) if s.value is not None else NONE)

    def st_Raise(self, s, env):
        exc = s.exc
        name = None
        if isinstance(exc, ast.Call): exc = exc.func
        if isinstance(exc, ast.Name): name = exc.id
        if name is None: raise Unsupported("raise of non-name")
        raise SymRaise(name, "raise statement")

    def st_Assert(self, s, env):
        if not self.truth(self.eval(s.test, env)):
            raise SymRaise("AssertionError", ast.unparse(s.test))

    def st_Import(self, s, env):
        for a in s.names: env[a.asname or a.name] = Builtin(a.name)

    def st_ImportFrom(self, s, env):
        for a in s.names:
            n = a.asname or a.name
            env[n] = self.global_name(n)

    def st_Delete(self, s, env): pass

    def st_FunctionDef(self, s, env):
        env[s.name] = ("localfunc", s, env)

    def st_If(self, s, env):
        if self.truth(self.eval(s.test, env)):
            self.exec_block(s.body, env)
        else:
            self.exec_block(s.orelse, env)

    def st_Assign(self, s, env):
        v = self.eval(s.value, env)
        for t in s.targets:
            self.assign(t, v, env)

    def st_AnnAssign(self, s, env):
        if s.value is not None:
            self.assign(s.target, self.eval(s.value, env), env)

    def st_AugAssign(self, s, env):
        t = s.target
        if isinstance(t, ast.Subscript):
            base = self.eval(t.value, env)
            if isinstance(base, ILoc) and base.kind == "iat":
                rhs = self.eval(s.value, env)
                return self.df_iat_iadd(base.target, self.eval(t.slice, env), rhs, s.op)
            key = self.eval(t.slice, env)
            cur = self.subscript(base, key)
            new = self.binop(s.op, cur, self.eval(s.value, env), inplace=True)
            return self.store_subscript(base, key, new)
        cur = self.eval(ast.copy_location(_load(t), t), env)
        new = self.binop(s.op, cur, self.eval(s.value, env), inplace=True)
        self.assign(t, new, env)

    def assign(self, t, v, env):
        if isinstance(t, ast.Name):
            env[t.id] = v
        elif isinstance(t, ast.Attribute):
            obj = self.eval(t.value, env)
            self.setattr(obj, t.attr, v)
        elif isinstance(t, (ast.Tuple, ast.List)):
            vals = self.iterate_concrete(v)
            if len(vals) != len(t.elts): raise Unsupported("unpack length")
            for tt_, vv in zip(t.elts, vals): self.assign(tt_, vv, env)
        elif isinstance(t, ast.Subscript):
            base = self.eval(t.value, env)
            self.store_subscript(base, self.eval(t.slice, env), v)
        else:
            raise Unsupported(f"assign target {type(t).__name__}")

    def st_Continue(self, s, env): raise ContinueEx()

    def st_Break(self, s, env): raise BreakEx()

    def loop_body(self, s, env):
        """one iteration of a loop body; `continue` ends the iteration (the rest of the body is skipped, nothing else)"""
        try:
            self.exec_block(s.body, env)
        except ContinueEx:
            pass

    def st_For(self, s, env):
        it = self.eval(s.iter, env)
        ordinal = self.loop_counter.get(id(s), -1)
        if s.orelse: raise Unsupported("for ... else")
        concrete = None
        if isinstance(it, (list, tuple)): concrete = list(it)
        elif isinstance(it, SDict): concrete = list(it.d.keys())
        elif isinstance(it, SRange) and not z3.is_expr(it.lo) and not z3.is_expr(it.hi):
            concrete = [PyNum(z3.IntVal(x)) for x in range(it.lo, it.hi)]
        if concrete is not None:
            for x in concrete:
                self.assign(s.target, x, env)
                try:
                    self.loop_body(s, env)
                except BreakEx:
                    break
            return
        if hasattr(it, "vf_enumerate"): it = it.vf_enumerate(self)
        spec = self.loop_specs.get(ordinal)
        if spec is None:
            raise Unsupported(f"loop #{ordinal} at line {s.lineno} in {self.fn_stack[-1]} has no invariant")
        self.symbolic_loop(s, env, it, spec, ordinal)

    def symbolic_loop(self, s, env, it, spec, ordinal):
        eng = self.eng
        eng.run.cache["symbolic_loops"] = True
        fn = self.fn_stack[-1]
        if isinstance(it, SRange):
            lo, hi = _z(it.lo), _z(it.hi)
            elem = lambda i: PyNum(i)
            n_exit = z3.If(hi > lo, hi, lo)
        elif isinstance(it, SList):
            lo, hi = z3.IntVal(0), it.n
            elem = it.elem
            n_exit = hi
            eng.assume(it.n >= 0)
        else:
            raise Unsupported(f"loop over {type(it).__name__}")
        ctx = LoopCtx(self, env, it, lo, hi, ordinal)
        view = spec(ctx)            # callable i -> {var: value, "__lemma__": [z3 Bool ...]}
        if isinstance(it, SList) and it.unordered:
            # C19: iteration order of set-derived collections is unspecified -> the accumulator must be a commutative fold
            eng.oblige(f"loop{ordinal}/order-independence: accumulator over an unordered collection is a commutative fold",
                       bool(getattr(view, "commutative", False)), kind="order")
        def split(d):
            d = dict(d); lem = d.pop("__lemma__", []); return d, lem
        # 1. establishment
        v0_, lem0 = split(view(lo))
        for var in v0_:
            # a contract that names a local the function does not define (renamed accumulator, restructured loop) does not bind:
            # undecided, never a violation
            defined = (var.split(".", 1)[1] in env[var.split(".", 1)[0]].attrs if "." in var and var.split(".", 1)[0] in env and hasattr(env[var.split(".", 1)[0]], "attrs") else var in env)
            if not defined: raise Unsupported(f"loop #{ordinal} contract names `{var}`, which is not defined at loop entry")
        for var, want in v0_.items():
            if isinstance(want, Havoc):
                for k_, f_ in enumerate(want.pred(self._acc_get(env, var), lo)): eng.oblige(f"loop{ordinal}/init/{var}/inv{k_}", f_, kind="inv")
                continue
            self.equiv(self._acc_get(env, var), want, f"loop{ordinal}/init/{var}")
        for k, l in enumerate(lem0): eng.oblige(f"loop{ordinal}/init/lemma{k}", l, kind="inv")
        ph = eng.phase(2, f"loop{ordinal}")
        if ph == 0:
            # 2. preservation from an arbitrary iteration
            i = eng.fresh(f"i{ordinal}", I)
            eng.assume(z3.And(lo <= i, i < hi))
            vi, lemi = split(view(i))
            for l in lemi: eng.assume(l)
            for var, val in vi.items():
                if isinstance(val, Havoc):
                    fresh_ = val.make()
                    for f_ in val.pred(fresh_, i): eng.assume(f_)
                    val = fresh_
                self._acc_set(env, var, val)
            self.assign(s.target, elem(i), env)
            if isinstance(it, SList) and it.guard is not None and not eng.decide(it.guard(i)):
                pass            # filtered out: the iteration does not happen
            else:
                try:
                    self.loop_body(s, env)
                except BreakEx:
                    raise Unsupported("break inside a loop under an invariant")
            vn, lemn = split(view(i + 1))
            for var, want in vn.items():
                if isinstance(want, Havoc):
                    for k_, f_ in enumerate(want.pred(self._acc_get(env, var), i + 1)): eng.oblige(f"loop{ordinal}/preserve/{var}/inv{k_}", f_, kind="inv")
                    continue
                self.equiv(self._acc_get(env, var), want, f"loop{ordinal}/preserve/{var}")
            for k, l in enumerate(lemn): eng.oblige(f"loop{ordinal}/preserve/lemma{k}", l, kind="inv")
            extra = getattr(view, "after_body", None)
            if extra: extra(ctx, i, env)
            raise Abort()
        # 3. exit
        vx, lemx = split(view(n_exit))
        for l in lemx: eng.assume(l)
        # python leaves the loop variable bound to the last element
        if isinstance(it, SList) and it.guard is None:
            if eng.decide(n_exit > lo):
                try: self.assign(s.target, elem(n_exit - 1), env)
                except Unsupported: pass
        for var, val in vx.items():
            if isinstance(val, Havoc):
                fresh_ = val.make()
                for f_ in val.pred(fresh_, n_exit): eng.assume(f_)
                val = fresh_
            self._acc_set(env, var, val)

    def _acc_get(self, env, var):
        if "." in var:
            o, a = var.split(".", 1); return env[o].attrs.get(a, NONE)
        return env.get(var, NONE)

    def _acc_set(self, env, var, val):
        cur = env.get(var) if "." not in var else None
        if cur is not None and hasattr(cur, "vf_assign"): cur.vf_assign(val); return
        if "." in var:
            o, a = var.split(".", 1); env[o].attrs[a] = val
        else:
            env[var] = val

    def st_While(self, s, env):
        raise Unsupported("while loop")

    # ================================================================== expressions
    def eval(self, e, env):
        m = getattr(self, "ex_" + type(e).__name__, None)
        if m is None:
            raise Unsupported(f"expression {type(e).__name__}")
        return m(e, env)

    def ex_Constant(self, e, env):
        v = e.value
        if v is None: return NONE
        if isinstance(v, bool): return v
        if isinstance(v, int): return PyNum(z3.IntVal(v))
        if isinstance(v, float): return PyNum(rv(v))
        if isinstance(v, str): return v
        raise Unsupported(f"constant {v!r}")

    def ex_Name(self, e, env):
        if e.id in env: return env[e.id]
        return self.global_name(e.id)

    def global_name(self, n):
        if n in self.module_globals: return self.module_globals[n]
        if n in EXPL_CLASSES or n in ("ExplainableObjectDict", "ModelingObject", "ContextualModelingObjectAttribute",
                                      "ListLinkedToModelingObj", "ObjectLinkedToModelingObj"):
            return ClassRef(n)
        if n in BUILTIN_NAMES: return Builtin(n)
        if self.world is not None:
            g = self.world.global_name(self, n)
            if g is not None: return g
        raise Unsupported(f"global name {n}")

    def ex_JoinedStr(self, e, env):
        parts, concrete, nonempty = [], True, False
        for v in e.values:
            if isinstance(v, ast.Constant):
                parts.append(v.value); nonempty = nonempty or bool(v.value)
            else:
                x = self.eval(v.value, env)
                if isinstance(x, str): parts.append(x); nonempty = nonempty or bool(x)
                else:
                    concrete = False
                    self._last_fmt = x
                    self.note_str_read(x)
        if concrete: return "".join(parts)
        if len(e.values) == 3 and parts == ["pint[", "]"] and isinstance(self._last_fmt, Opaque) and self._last_fmt.what == "unitstr":
            return Opaque("pint-dtype", self._last_fmt.payload)
        return Label(nonempty, "".join(p for p in parts))

    def note_str_read(self, x):
        pass

    def ex_Tuple(self, e, env): return tuple(self.eval(x, env) for x in e.elts)
    def ex_List(self, e, env): return [self.eval(x, env) for x in e.elts]

    def ex_Set(self, e, env):
        if "set_display" not in self.hooks: raise Unsupported("set display")
        return self.hooks["set_display"](self, [self.eval(x, env) for x in e.elts])

    def ex_Dict(self, e, env):
        d = {}
        for k, v in zip(e.keys, e.values):
            kk = self.eval(k, env)
            d[self.dict_key(kk)] = self.eval(v, env)
        return SDict(d)

    def dict_key(self, k):
        if isinstance(k, Expl) and k.kind == "eo" and isinstance(k.value, str): return ("eo", k.value)
        if isinstance(k, (str, int)): return k
        if isinstance(k, PyNum) and z3.is_int_value(k.z): return k.z.as_long()
        if isinstance(k, ModelObj): return k
        raise Unsupported(f"dict key {k!r}")

    def ex_IfExp(self, e, env):
        return self.eval(e.body, env) if self.truth(self.eval(e.test, env)) else self.eval(e.orelse, env)

    def ex_BoolOp(self, e, env):
        isand = isinstance(e.op, ast.And)
        v = None
        for x in e.values:
            v = self.eval(x, env)
            t = self.truth(v)
            if isand and not t: return v
            if not isand and t: return v
        return v

    def ex_UnaryOp(self, e, env):
        v = self.eval(e.operand, env)
        if isinstance(e.op, ast.Not): return not self.truth(v)
        if isinstance(e.op, ast.USub):
            if isinstance(v, PyNum): return PyNum(z3.simplify(-v.z))
            if isinstance(v, DF): return DF(L.vmap(v.vec, lambda x: -x, total=None if v.vec.total is None else -v.vec.total), v.unit)
            if isinstance(v, Arr):
                a = Arr(lambda t: -v.mag(t), v.origin, v.length)
                a.total = None if getattr(v, "total", None) is None else -v.total
                return a
            if isinstance(v, Expl): return self.call_method(v, "__neg__", [], {})
            if isinstance(v, Qty): return Qty(-v.phys, v.unit)
        if isinstance(e.op, ast.Invert) and isinstance(v, Mask):
            return Mask(lambda t: z3.Not(v.f(t)), v.origin)
        raise Unsupported(f"unary {type(e.op).__name__} on {type(v).__name__}")

    def ex_BinOp(self, e, env):
        return self.binop(e.op, self.eval(e.left, env), self.eval(e.right, env))

    def ex_Compare(self, e, env):
        left = self.eval(e.left, env)
        for op, c in zip(e.ops, e.comparators):
            right = self.eval(c, env)
            r = self.compare(op, left, right)
            if isinstance(r, Mask) and len(e.ops) == 1: return r
            if not self.truth(r): return False
            left = right
        return True

    def ex_Attribute(self, e, env):
        return self.getattr(self.eval(e.value, env), e.attr)

    def ex_Subscript(self, e, env):
        return self.subscript(self.eval(e.value, env), self.eval(e.slice, env))

    def ex_Slice(self, e, env):
        return ("slice", self.eval(e.lower, env) if e.lower else None, self.eval(e.upper, env) if e.upper else None)

    def ex_Call(self, e, env):
        f = self.eval(e.func, env)
        args = []
        for a in e.args:
            if isinstance(a, ast.Starred): args.extend(self.iterate_concrete(self.eval(a.value, env)))
            else: args.append(self.eval(a, env))
        kwargs = {k.arg: self.eval(k.value, env) for k in e.keywords}
        return self.call(f, args, kwargs, e)

    def ex_ListComp(self, e, env): return self.comprehension(e, env)
    def ex_GeneratorExp(self, e, env): return self.comprehension(e, env)

    def ex_DictComp(self, e, env):
        gen = e.generators[0]
        if len(e.generators) != 1: raise Unsupported("nested dict comprehension")
        it = self.eval(gen.iter, env)
        items = self.iterate_concrete_or_none(it)
        key_is_elem = isinstance(e.key, ast.Name) and isinstance(gen.target, ast.Name) and e.key.id == gen.target.id
        # {x.id: ... for x in xs}: ids identify the elements (pairwise distinct: assumption A-UUID), so the dict is keyed by element
        key_is_elem_id = isinstance(e.key, ast.Attribute) and e.key.attr == "id" and isinstance(e.key.value, ast.Name) \
            and isinstance(gen.target, ast.Name) and e.key.value.id == gen.target.id
        if items is None and isinstance(it, SList) and not gen.ifs and (key_is_elem or key_is_elem_id) and not it.unordered and not getattr(it, "dupfree", False):
            # a user list may hold the same object twice (a step repeated in a journey): a dict keyed by its elements collapses the
            # repeats, which the positional encoding below cannot express
            raise Unsupported("dict keyed by the elements of a list that may repeat an element")
        if items is None and isinstance(it, SList) and not gen.ifs and (key_is_elem or key_is_elem_id):
            def base(k, it=it, env=env):
                env2 = dict(env); self.assign(gen.target, it.elem(k), env2)
                return self.eval(e.value, env2)
            return KDict(it, base)
        if items is None: raise Unsupported("dict comprehension over symbolic iterable")
        out = {}
        for x in items:
            env2 = dict(env); self.assign(gen.target, x, env2)
            if all(self.truth(self.eval(c, env2)) for c in gen.ifs):
                out[self.dict_key(self.eval(e.key, env2))] = self.eval(e.value, env2)
        return SDict(out)

    def comprehension(self, e, env):
        it0 = self.eval(e.generators[0].iter, env)
        if hasattr(it0, "vf_comprehension"): return it0.vf_comprehension(self, e, env)
        if len(e.generators) != 1: raise Unsupported("nested comprehension")
        gen = e.generators[0]
        it = it0
        if "py_iter" in self.hooks:
            r_ = self.hooks["py_iter"](it)
            if r_ is not None: it = r_
        items = self.iterate_concrete_or_none(it)
        if items is not None:
            out = []
            for x in items:
                env2 = dict(env); self.assign(gen.target, x, env2)
                if all(self.truth(self.eval(c, env2)) for c in gen.ifs):
                    out.append(self.eval(e.elt, env2))
            return out
        if isinstance(it, QList) and not gen.ifs and isinstance(e.elt, ast.Attribute) and e.elt.attr == "id" \
                and isinstance(e.elt.value, ast.Name) and isinstance(gen.target, ast.Name) and e.elt.value.id == gen.target.id:
            return QIds(it)
        if isinstance(it, QList) and len(gen.ifs) == 1 and isinstance(e.elt, ast.Name) and isinstance(gen.target, ast.Name) and e.elt.id == gen.target.id:
            return self.qlist_filter(it, gen, env)
        if isinstance(it, QList) and not gen.ifs and isinstance(e.elt, ast.Name) and isinstance(gen.target, ast.Name) and e.elt.id == gen.target.id \
                and not isinstance(e, ast.GeneratorExp):
            r = QList(it.n, it.src, it.idf, f"[{it.name}]")       # a copy: same elements, same order
            if hasattr(it, "elem_attr"): r.elem_attr = it.elem_attr
            return r
        if isinstance(it, QList) and not gen.ifs and isinstance(e, ast.GeneratorExp) and isinstance(gen.target, ast.Name):
            X = z3.Int("x!gen")
            env2 = dict(env); self.assign(gen.target, QElem(it, X), env2)
            t = self.formula_of(e.elt, env2)
            if isinstance(t, bool): t = z3.BoolVal(t)
            return QBoolGen(it, lambda x, t=t, X=X: z3.substitute(t, (X, x)))
        if isinstance(it, SList) and len(gen.ifs) == 1 and isinstance(e.elt, ast.Name) and isinstance(gen.target, ast.Name) and e.elt.id == gen.target.id \
                and isinstance(gen.ifs[0], ast.Compare) and isinstance(gen.ifs[0].ops[0], ast.In) and self.world is not None:
            cond = gen.ifs[0]
            container = self.eval(cond.comparators[0], env)
            if isinstance(container, SList):
                def guard(i, it=it, container=container):
                    return self.world.member_formula(self, container, it.elem(i))
                return SList(it.n, it.elem, f"[{it.name} if in {container.name}]", unordered=it.unordered, guard=guard)
        if isinstance(it, SList):
            if gen.ifs: return Opaque("filtered-list")      # only ever rendered into a message
            def elem(i, it=it, env=env):
                env2 = dict(env); self.assign(gen.target, it.elem(i), env2)
                return self.eval(e.elt, env2)
            return SList(it.n, elem, f"[{ast.unparse(e.elt)} for {it.name}]", unordered=it.unordered)
        raise Unsupported(f"comprehension over {type(it).__name__}")

    def _compare_formula(self, op, a, b):
        return self.compare(op, a, b)

    def formula_of(self, e, env):
        """a boolean expression as a formula (no case split): comparisons of numbers / ids combined with and / or / not"""
        if isinstance(e, ast.BoolOp):
            parts = [self.formula_of(v, env) for v in e.values]
            parts = [z3.BoolVal(x) if isinstance(x, bool) else x for x in parts]
            return z3.And(parts) if isinstance(e.op, ast.And) else z3.Or(parts)
        if isinstance(e, ast.UnaryOp) and isinstance(e.op, ast.Not):
            x = self.formula_of(e.operand, env)
            return (not x) if isinstance(x, bool) else z3.Not(x)
        if isinstance(e, ast.Compare) and len(e.ops) == 1:
            lhs, rhs = self.eval(e.left, env), self.eval(e.comparators[0], env)
            if isinstance(e.ops[0], (ast.In, ast.NotIn)) and isinstance(rhs, QIds) and isinstance(lhs, PyNum):
                k = self.eng.fresh("k_in", I)
                lo = rhs.lo if rhs.lo is not None else z3.IntVal(0)
                hi = rhs.hi if rhs.hi is not None else rhs.lst.n
                f_ = z3.Exists([k], z3.And(lo <= k, k < hi, rhs.lst.idf(rhs.lst.src(k)) == lhs.z))
                return f_ if isinstance(e.ops[0], ast.In) else z3.Not(f_)
            if isinstance(e.ops[0], (ast.In, ast.NotIn)) and isinstance(rhs, list) and not rhs:
                return isinstance(e.ops[0], ast.NotIn)
            r = self.compare(e.ops[0], lhs, rhs)
            if isinstance(r, bool) or (z3.is_expr(r) and r.sort() == B): return r
        if isinstance(e, ast.Call) and isinstance(e.func, ast.Name) and e.func.id == "isinstance" and len(e.args) == 2:
            r = self.isinstance(self.eval(e.args[0], env), self.eval(e.args[1], env))
            if isinstance(r, bool) or (z3.is_expr(r) and r.sort() == B): return r
        raise Unsupported("filter test outside the formula fragment")

    def qlist_filter(self, L, gen, env):
        """[x for x in L if test(x)] over a symbolic list: the order-preserving sub-list of the elements satisfying the test
        (semantics of a python filter comprehension, stated as definitional facts about a fresh list; assumption A-LISTCOMP).
        The fresh list keeps `filter_of` = (L, pos, wit, keep) so that a harness can instantiate the facts by hand."""
        eng = self.eng
        X = z3.Int("x!filter")
        env2 = dict(env); self.assign(gen.target, QElem(L, X), env2)
        t = self.formula_of(gen.ifs[0], env2)
        if isinstance(t, bool): t = z3.BoolVal(t)
        if not (z3.is_expr(t) and t.sort() == B): raise Unsupported("filter test is not a formula of the element")
        keep = lambda x, t=t: z3.substitute(t, (X, x))
        k = eng.run.cache["nfilter"] = eng.run.cache.get("nfilter", 0) + 1
        n = z3.Int(f"filter{k}.len")
        pos = z3.Function(f"filter{k}.pos", I, I); wit = z3.Function(f"filter{k}.wit", I, I)
        R = QList(n, lambda p, pos=pos, L=L: L.src(pos(p)), L.idf, f"[{L.name} if ...]")
        R.filter_of = (L, pos, wit, keep)
        if hasattr(L, "elem_attr"): R.elem_attr = L.elem_attr
        p_, q_, j_ = z3.Ints("p!f q!f j!f")
        eng.assume_def(z3.And(n >= 0, n <= L.n))
        eng.assume_def(z3.ForAll([p_], z3.Implies(z3.And(0 <= p_, p_ < n), z3.And(0 <= pos(p_), pos(p_) < L.n, keep(L.src(pos(p_)))))))
        eng.assume_def(z3.ForAll([p_, q_], z3.Implies(z3.And(0 <= p_, p_ < q_, q_ < n), pos(p_) < pos(q_))))
        eng.assume_def(z3.ForAll([j_], z3.Implies(z3.And(0 <= j_, j_ < L.n, keep(L.src(j_))), z3.And(0 <= wit(j_), wit(j_) < n, pos(wit(j_)) == j_))))
        return R

    def ex_Lambda(self, e, env):
        return ("lambda", e, env)

    # ================================================================== truth, compare
    def truth(self, v):
        if isinstance(v, bool): return v
        if hasattr(v, "vf_truth"): return v.vf_truth(self)
        if v is NONE: return False
        if isinstance(v, PyNum): return self.eng.decide(v.z != 0)
        if isinstance(v, str): return len(v) > 0
        if isinstance(v, Label): return v.nonempty if isinstance(v.nonempty, bool) else self.eng.decide(v.nonempty)
        if isinstance(v, (list, tuple)): return len(v) > 0
        if isinstance(v, SDict): return len(v.d) > 0
        if isinstance(v, SList): return self.eng.decide(v.n > 0)
        if z3.is_expr(v) and v.sort() == B: return self.eng.decide(v)
        if isinstance(v, Expl):
            # ExplainableObject defines no __bool__/__len__ except EHQ.__len__ -> truthiness by len for ehq
            if v.kind == "ehq":
                n = v.value.vec.n
                if n is None: raise Unsupported("truth of series without length")
                return self.eng.decide(n > 0)
            return True
        if isinstance(v, Opaque) and v.what == "unspecified-bool":
            return self.eng.decide(self.eng.fresh("unspecified_bool", B))
        if isinstance(v, (ModelObj, Qty, DF, Opaque, ClassRef, Builtin)):
            if isinstance(v, Qty): return self.eng.decide(v.phys != 0)
            return True
        raise Unsupported(f"truth of {type(v).__name__}")

    def compare(self, op, a, b):
        eng = self.eng
        if isinstance(a, Opt): a = self.resolve_opt(a)
        if isinstance(b, Opt): b = self.resolve_opt(b)
        if isinstance(op, (ast.Is, ast.IsNot)):
            if hasattr(a, "vf_is_none") and b is NONE:
                r = a.vf_is_none
                return r if isinstance(op, ast.Is) else z3.Not(r)
            if isinstance(a, QElem) and isinstance(b, QElem):      # the same element of the universe, whatever python wrapper carries it
                r = a.j == b.j
                return r if isinstance(op, ast.Is) else z3.Not(r)
            r = (a is b) or (a is NONE and b is NONE)
            return r if isinstance(op, ast.Is) else not r
        if hasattr(a, "vf_compare") and isinstance(op, (ast.Eq, ast.NotEq)):
            r = a.vf_compare(self, b)
            return r if isinstance(op, ast.Eq) else (not r if isinstance(r, bool) else z3.Not(r))
        if hasattr(b, "vf_compare") and isinstance(op, (ast.Eq, ast.NotEq)):
            r = b.vf_compare(self, a)
            return r if isinstance(op, ast.Eq) else (not r if isinstance(r, bool) else z3.Not(r))
        if isinstance(op, (ast.In, ast.NotIn)):
            r = self.contains(b, a)
            return r if isinstance(op, ast.In) else not r
        if isinstance(a, Dim) and isinstance(b, Dim) and isinstance(op, (ast.Eq, ast.NotEq)):
            return (a == b) if isinstance(op, ast.Eq) else (a != b)
        if isinstance(a, PyNum) and isinstance(b, PyNum):
            if a.sign_term is not None and _is_zero(b): return _cmp(op, a.sign_term, z3.RealVal(0))
            if b.sign_term is not None and _is_zero(a): return _cmp(op, z3.RealVal(0), b.sign_term)
            return _cmp(op, a.r if not (a.is_int and b.is_int) else a.z, b.r if not (a.is_int and b.is_int) else b.z)
        if isinstance(a, str) and isinstance(b, str):
            return {ast.Eq: a == b, ast.NotEq: a != b}[type(op)]
        if isinstance(a, Qty) or isinstance(b, Qty):
            qa, qb = self.as_qty_for_compare(a, b)
            if qa.unit.dim != qb.unit.dim:
                if isinstance(op, ast.Eq): return False      # pint: == across dimensions is False, ordering raises
                if isinstance(op, ast.NotEq): return True
                raise SymRaise("DimensionalityError", "comparison of incompatible quantities")
            return _cmp(op, qa.phys, qb.phys)
        if isinstance(a, Expl):
            name = {ast.Eq: "__eq__", ast.NotEq: "__ne__", ast.Lt: "__lt__", ast.Gt: "__gt__", ast.LtE: "__le__", ast.GtE: "__ge__"}[type(op)]
            if name == "__ne__":
                return not self.truth(self.call_method(a, "__eq__", [b], {}))
            return self.call_method(a, name, [b], {})
        if isinstance(b, Expl) and isinstance(op, (ast.Eq, ast.NotEq)):
            r = self.call_method(b, "__eq__", [a], {})
            return r if isinstance(op, ast.Eq) else not self.truth(r)
        if isinstance(a, TS) and isinstance(b, TS):
            return _cmp(op, a.tick, b.tick)
        if isinstance(a, Index) and isinstance(b, TS):
            o = a.origin
            return Mask(lambda t: _cmp(op, t, b.tick), o)
        if isinstance(a, (ModelObj, ClassRef, NoneV)) or isinstance(b, (ModelObj, ClassRef, NoneV)):
            if isinstance(op, (ast.Eq, ast.NotEq)):
                r = self.model_eq(a, b)
                return r if isinstance(op, ast.Eq) else (not r if isinstance(r, bool) else z3.Not(r))
        if isinstance(a, Unit) and isinstance(b, Unit) and isinstance(op, (ast.Eq, ast.NotEq)):
            # pint: units are equal when they have the same dimension and the same conversion factor
            if a.dim != b.dim: r = False
            elif a.factor is b.factor: r = True
            else:
                f_ = z3.simplify(rv(a.factor) == rv(b.factor))
                r = True if z3.is_true(f_) else False if z3.is_false(f_) else f_
            return r if isinstance(op, ast.Eq) else (not r if isinstance(r, bool) else z3.Not(r))
        if isinstance(a, Opaque) or isinstance(b, Opaque):
            return self.eng.decide(self.eng.fresh("opaque_cmp", B))
        if isinstance(op, (ast.Eq, ast.NotEq)) and isinstance(a, (str, PyNum, NoneV, bool)) and isinstance(b, (str, PyNum, NoneV, bool)) \
                and type(a) is not type(b):
            return isinstance(op, ast.NotEq)
        raise Unsupported(f"compare {type(op).__name__} {type(a).__name__} {type(b).__name__}")

    def model_eq(self, a, b):
        if a is b: return True
        if isinstance(a, ModelObj) and isinstance(b, ModelObj):
            if a.family is not None and a.family == b.family and a.index is not None and b.index is not None \
                    and not isinstance(a.index, tuple) and not isinstance(b.index, tuple):
                return a.index == b.index        # duplicate-free symbolic lists: same element iff same index
            if self.world is not None:
                r = self.world.model_eq(self, a, b)
                if r is not None: return r
            return False
        return False

    def as_qty_for_compare(self, a, b):
        def conv(x, other):
            if isinstance(x, Qty): return x
            if isinstance(x, PyNum):
                # pint: comparing a quantity with a bare number is only legal for 0 or dimensionless
                if z3.is_int_value(x.z) and x.z.as_long() == 0 or z3.is_rational_value(x.z) and x.z.numerator_as_long() == 0:
                    return Qty(z3.RealVal(0), other.unit)
                if other.unit.dim == DIMLESS: return Qty(x.r, Unit(DIMLESS, 1.0))
                raise SymRaise("DimensionalityError", "compare quantity with number")
            raise Unsupported(f"compare Qty with {type(x).__name__}")
        return conv(a, b if isinstance(b, Qty) else a), conv(b, a if isinstance(a, Qty) else b)

    def contains(self, container, x):
        if hasattr(container, "vf_contains"): return container.vf_contains(self, x)
        if isinstance(container, IntSet) and isinstance(x, PyNum):
            return self.eng.decide(container.pred(x.z))
        if isinstance(container, QIds) and isinstance(x, PyNum):
            k = self.eng.fresh("k_in", I)
            lo = container.lo if container.lo is not None else z3.IntVal(0)
            hi = container.hi if container.hi is not None else container.lst.n
            L = container.lst
            return self.eng.decide(z3.Exists([k], z3.And(lo <= k, k < hi, L.idf(L.src(k)) == x.z)))
        if isinstance(container, (list, tuple)):
            for y in container:
                if self.truth(self.compare(ast.Eq(), x, y) if not (isinstance(x, str) and isinstance(y, str)) else x == y):
                    return True
            return False
        if isinstance(container, SDict):
            return self.dict_key(x) in container.d
        if isinstance(container, str) and isinstance(x, str):
            return x in container
        if isinstance(container, (Label, str)) or isinstance(x, Label):
            return self.eng.decide(self.eng.fresh("str_in", B))
        if self.world is not None:
            r = self.world.contains(self, container, x)
            if r is not None: return r
        raise Unsupported(f"'in' on {type(container).__name__}")

    # ================================================================== iteration helpers
    def iterate_concrete_or_none(self, it):
        if isinstance(it, (list, tuple)): return list(it)
        if isinstance(it, SDict): return list(it.d.keys())
        if isinstance(it, ("".__class__,)): return None
        if isinstance(it, SRange) and not z3.is_expr(it.lo) and not z3.is_expr(it.hi):
            return [PyNum(z3.IntVal(k)) for k in range(it.lo, it.hi)]
        if isinstance(it, tuple) and it and it[0] == "dict_items": return it[1]
        return None

    def iterate_concrete(self, it):
        r = self.iterate_concrete_or_none(it)
        if r is None: raise Unsupported(f"iteration over {type(it).__name__}")
        return r

    # ================================================================== attribute access
    def getattr(self, o, name):
        if isinstance(o, Opt): o = self.resolve_opt(o)
        if hasattr(o, "vf_getattr"): return o.vf_getattr(self, name)
        if isinstance(o, Builtin):
            if o.name == "u": return self.units.literal(name)
            return Builtin(f"{o.name}.{name}")
        if isinstance(o, Expl): return self.expl_getattr(o, name)
        if isinstance(o, ExplU): return self.getattr(self.resolve(o), name)
        if isinstance(o, ModelObj): return self.model_getattr(o, name)
        if isinstance(o, Qty):
            if name in ("magnitude", "m"):
                im = getattr(o, "int_mag", None)
                if im is not None: return PyNum(im, sign_term=o.phys)
                return PyNum(o.mag, sign_term=o.phys)
            if name in ("units", "u"): return o.unit
            if name == "dimensionality": return o.unit.dim
            if name == "dimensionless": return o.unit.dim == DIMLESS
            if name == "unitless":
                # pint: no units at all once reduced to root units.  bit/byte count as units although they are dimensionless,
                # which the Dim abstraction does not track: over-approximate (either answer) for dimensionless quantities
                if o.unit.dim != DIMLESS: return False
                return self.eng.decide(self.eng.fresh("unitless", B))
            return BoundMethod(o, name)
        if isinstance(o, DF):
            if name == "index": return Index(o.vec)
            if name == "value": return Series(o)       # df.value column access (dtypes.value)
            if name == "iat": return ILoc(o, "iat")
            if name == "iloc": return ILoc(o, "iloc")
            if name == "dtypes": return ("dtypes", o)
            if name == "empty":
                if o.vec.n is None: raise Unsupported("empty of series without length")
                return o.vec.n == 0
            if name == "columns": return Opaque("columns")
            return BoundMethod(o, name)
        if isinstance(o, Series):
            if name == "values":
                a = Arr(lambda t: o.df.vec.val(t) / o.df.unit.f, o.df.vec.origin, o.df.vec.n)
                a.total = None if o.df.vec.total is None else o.df.vec.total / o.df.unit.f
                pf = getattr(o.df.vec, "prefix", None)
                if pf is not None:
                    f_ = o.df.unit.f
                    a.prefix = lambda t: pf(t) / f_
                return PintArr(a, o.df.unit)
            if name == "pint": return PintAccessor(o)
            if name == "iloc": return ILoc(o, "iloc")
            return BoundMethod(o, name)
        if isinstance(o, PintArr):
            if name in ("data", "_data"): return o.arr
            if name == "units": return o.unit
            return BoundMethod(o, name)
        if isinstance(o, tuple) and o and o[0] == "dtypes":
            if name == "iloc": return ILoc(o, "dtypes.iloc")
            if name == "value": return ("dtype", o[1])
        if isinstance(o, tuple) and o and o[0] == "dtype":
            if name == "units": return o[1].unit
        if isinstance(o, Index):
            return BoundMethod(o, name)
        if isinstance(o, TS):
            if name in ("hour", "day_of_week", "day", "day_of_year", "month", "dayofweek", "dayofyear", "weekday"):
                # calendar fields: uninterpreted functions of the instant (nothing about the calendar is assumed)
                return PyNum(z3.Function("CAL." + {"dayofweek": "day_of_week", "dayofyear": "day_of_year"}.get(name, name), I, I)(o.tick if o.tick.sort() == I else z3.ToInt(o.tick)))
            return BoundMethod(o, name)
        if isinstance(o, Opaque) and o.what == "source" and name in ("name", "link"): return Label(True, "source " + name)
        if isinstance(o, Opaque) and o.what == "Sources": return Opaque("source", name)
        if isinstance(o, Opaque) and o.what == "timedelta" and name == "seconds":
            return PyNum((o.payload * 60) % 86400)     # timedelta.seconds: seconds part only (days dropped), ticks are minutes
        if isinstance(o, QElem):
            if name == "id": return PyNum(o.lst.idf(o.j))
            rd = getattr(o.lst, "elem_attr", None)
            if rd is not None: return rd(self, o.j, name)
            raise Unsupported(f"attribute {name} of a chain element")
        if isinstance(o, QList): return BoundMethod(o, name)
        if isinstance(o, Unit):
            if name == "dimensionless": return o.dim == DIMLESS        # pint: true for every unit without dimension, whatever its factor (GB/MB, percent)
            if name == "dimensionality": return o.dim
        if isinstance(o, (Arr, PintAccessor, SDict, SList, KDict, list, str, Label, Unit, Opaque, tuple, ILoc)):
            return BoundMethod(o, name)
        if isinstance(o, ClassRef):
            return BoundMethod(o, name)
        if isinstance(o, Uninit):
            if o.obj is not None: return self.getattr(o.obj, name)
            return BoundMethod(o, name)
        if o is NONE:
            raise SymRaise("AttributeError", f"'NoneType' object has no attribute '{name}'")
        if isinstance(o, PyNum):
            raise SymRaise("AttributeError", f"number has no attribute '{name}'")
        raise Unsupported(f"getattr {type(o).__name__}.{name}")

    def resolve_opt(self, o: Opt):
        return NONE if self.eng.decide(o.is_none) else o.value

    def resolve(self, u: ExplU):
        if self.eng.decide(u.is_empty):
            if u.empty is None:
                u.empty = Expl("empty", label=Label(True, "no value"), deps=u.nonempty.deps, attached=u.nonempty.attached,
                               anc=u.nonempty.anc, fresh_obj=u.nonempty.fresh_obj)
                u.empty.value = u.empty
            return u.empty
        return u.nonempty

    def expl_getattr(self, o: Expl, name):
        if name == "__class__": return ClassRef(KIND_CLASS[o.kind])
        if name == "value":
            self.note_read(o)
            return o if o.kind == "empty" else o.value
        if name == "label": return o.label
        if name == "left_parent": return o.left if o.left is not None else NONE
        if name == "right_parent": return o.right if o.right is not None else NONE
        if name == "operator": return o.operator if o.operator is not None else NONE
        if name == "source": return o.source if o.source is not None else NONE
        if name == "magnitude":
            if o.kind == "empty": return PyNum(z3.IntVal(0))
            if o.kind == "eq":
                self.note_read(o)
                im = getattr(o.value, "int_mag", None)
                if im is not None: return PyNum(im, sign_term=o.value.phys)
                return PyNum(o.value.mag, sign_term=o.value.phys)
            raise SymRaise("AttributeError", "magnitude")
        if name == "unit" and o.kind == "ehq": return o.value.unit
        if name == "iloc" and o.kind == "empty": return [self.call_method(o, "iloc_elem", [], {})]
        if name in ("modeling_obj_container",):
            return o.attached[0] if o.attached else NONE
        if name == "id":
            if not o.attached: raise SymRaise("ValueError", "id of unattached value")
            return Opaque("id", o.attached)
        return BoundMethod(o, name)

    def model_getattr(self, o: ModelObj, name):
        if name in o.attrs:
            v = o.attrs[name]
            return v
        if self.world is None: raise Unsupported(f"no world for {o}.{name}")
        return self.world.model_getattr(self, o, name)

    def setattr(self, obj, name, v):
        if hasattr(obj, "vf_setattr"): return obj.vf_setattr(self, name, v)
        if isinstance(obj, ModelObj):
            if self.world is None: raise Unsupported("setattr without world")
            return self.world.model_setattr(self, obj, name, v)
        if isinstance(obj, Expl):
            if name == "value":
                if obj.kind == "eq" and isinstance(v, Qty):
                    obj.value = v; return
                if obj.kind == "ehq" and isinstance(v, DF):
                    obj.value = v; return
                if obj.kind == "empty":
                    return
            if name == "label":
                obj.label = v if isinstance(v, Label) else Label(bool(v), v if isinstance(v, str) else None) if v is not NONE else Label(False); return
            if name in ("simulation_twin", "baseline_twin", "simulation", "initial_modeling_obj_container", "source",
                        "left_parent", "right_parent", "operator", "direct_ancestors_with_id", "direct_children_with_id"):
                setattr(obj, "_" + name, v); return
        raise Unsupported(f"setattr {type(obj).__name__}.{name}")

    # ================================================================== subscripts
    def subscript(self, base, key):
        if hasattr(base, "vf_subscript"): return base.vf_subscript(self, key)
        if isinstance(base, DF):
            if key == "value": return Series(base)
            if isinstance(key, Mask):
                fv = L.vfilter(base.vec, key.f)
                n = self.eng.fresh("filtered_len", I); w = self.eng.fresh("filtered_at", I)
                self.eng.assume(n >= 0)
                self.add_universal(lambda t: z3.Implies(n == 0, z3.Not(fv.inidx(t))))
                self.eng.assume(z3.Implies(n > 0, fv.inidx(w))); self.add_point(w)
                fv.n = n
                return DF(fv, base.unit)
        if isinstance(base, SDict):
            k = self.dict_key(key)
            if k not in base.d: raise SymRaise("KeyError", str(k))
            return base.d[k]
        if isinstance(base, (list, tuple)):
            if isinstance(key, PyNum) and z3.is_int_value(key.z): return base[key.z.as_long()]
        if isinstance(base, Arr) and isinstance(key, PyNum) and z3.is_int_value(key.z) and key.z.as_long() in (0, -1) and base.origin is not None:
            self.index_facts(base.origin)
            return PyNum(base.mag(base.origin.tmin if key.z.as_long() == 0 else base.origin.tmax))
        if isinstance(base, KDict):
            if isinstance(base.keys, KeyStub) and base.keys.name is None: raise SymRaise("KeyError", "empty dict")
            k = self.world.key_index(self, base.keys, key)
            for ok, ov in reversed(base.overlay):
                if self.eng.decide(k == ok): return ov
            if base.dom is not None and not self.eng.decide(base.dom(k)): raise SymRaise("KeyError", "no entry for this key")
            return base.base(k)
        if isinstance(base, QList) and isinstance(key, PyNum):
            self.lib_pre("list index in range", z3.And(key.z >= 0, key.z < base.n))
            return QElem(base, base.src(key.z))
        if isinstance(base, QIds) and isinstance(key, tuple) and key and key[0] == "slice":
            lo = key[1].z if key[1] is not None else z3.IntVal(0)
            hi = key[2].z if key[2] is not None else base.lst.n
            return QIds(base.lst, lo, hi)
        if isinstance(base, ILoc):
            if base.kind == "dtypes.iloc": return ("dtype", base.target[1])
            if base.kind == "iloc" and isinstance(base.target, Series) and isinstance(key, PyNum) and z3.is_int_value(key.z) \
                    and key.z.as_long() in (0, -1):
                df = base.target.df; v = df.vec
                self.index_facts(v)
                self.lib_pre("iloc[0] / iloc[-1] of a non-empty series", v.n > 0)
                at = v.tmin if key.z.as_long() == 0 else v.tmax
                return Qty(v.val(at), df.unit)
        if isinstance(base, Index):
            if isinstance(key, PyNum) and z3.is_int_value(key.z) and key.z.as_long() == 0:
                return TS(base.origin.tmin)
        if self.world is not None:
            r = self.world.subscript(self, base, key)
            if r is not None: return r
        raise Unsupported(f"subscript {type(base).__name__}[{type(key).__name__}]")

    def store_subscript(self, base, key, v):
        if isinstance(base, KDict):
            if isinstance(base.keys, KeyStub) and base.keys.name is None and isinstance(key, ModelObj): base.keys.name = key.family
            if isinstance(v, (Expl, ExplU)) and getattr(base, "explainable_dict", False):
                vv = self.resolve(v) if isinstance(v, ExplU) else v
                self.eng.oblige(f"attach/dict entry: value attached to the model carries a label", vv.label.nonempty, kind="post")
            base.overlay.append((self.world.key_index(self, base.keys, key), v)); return
        if isinstance(base, PArr) and isinstance(key, PyNum) and isinstance(v, PyNum):
            old, k_, val = base.at, key.z, v.r
            self.lib_pre("array index in range", z3.And(k_ >= 0, k_ < _z(base.n)))
            base.at = lambda p: z3.If(p == k_, val, old(p))
            return
        if isinstance(base, Arr) and isinstance(key, PyNum) and z3.is_int_value(key.z) and key.z.as_long() == 0 \
                and isinstance(v, PyNum) and base.origin is not None:
            o = base.origin
            self.index_facts(o)
            old, new0 = base.mag, v.r
            tmin = o.tmin
            delta = new0 - old(tmin)
            base.mag = lambda t: z3.If(t == tmin, new0, old(t))
            if base.total is not None: base.total = base.total + delta
            pf = getattr(base, "prefix", None)
            if pf is not None: base.prefix = lambda t: z3.If(t >= tmin, pf(t) + delta, pf(t))
            return
        if isinstance(base, SDict):
            base.d[self.dict_key(key)] = v; return
        if isinstance(base, DF) and key == "value" and isinstance(v, (Series, PintArr)):
            if isinstance(v, Series):
                base.vec, base.unit = v.df.vec, v.df.unit
            else:
                base.vec, base.unit = self.vec_from_pintarr(v, Index(base.vec)), v.unit
            return
        if self.world is not None and self.world.store_subscript(self, base, key, v):
            return
        raise Unsupported(f"store subscript {type(base).__name__}")

    def df_iat_iadd(self, df: DF, key, rhs, op):
        # storage_delta_df.iat[0, 0] += q : adds q at the first index position (tmin)
        if not isinstance(op, ast.Add) or not isinstance(rhs, Qty): raise Unsupported("iat op")
        if rhs.unit.dim != df.unit.dim: raise SymRaise("DimensionalityError", "iat +=")
        v = df.vec
        if v.tmin is None: raise Unsupported("iat on series without tmin")
        self.index_facts(v)
        tmin = v.tmin
        nv = Vec(v.inidx, lambda t: z3.If(t == tmin, v.val(t) + rhs.phys, v.val(t)),
                 total=None if v.total is None else v.total + rhs.phys, tmax=v.tmax, tmin=v.tmin, n=v.n, origin=v.origin)
        pf = getattr(v, "prefix", None)
        if pf is not None:
            nv.prefix = lambda t: z3.If(t >= tmin, pf(t) + rhs.phys, pf(t))
        nv.needs_nonempty = True
        df.vec = nv

    # ================================================================== binary operators
    def binop(self, op, a, b, inplace=False):
        if isinstance(a, ExplU): a = self.resolve(a)
        if isinstance(b, ExplU): b = self.resolve(b)
        if isinstance(a, Opt): a = self.resolve_opt(a)
        if isinstance(b, Opt): b = self.resolve_opt(b)
        tname = type(op).__name__
        if hasattr(a, "vf_binop"):
            r_ = a.vf_binop(self, tname, b)
            if r_ is not NotImplemented: return r_
        if hasattr(b, "vf_rbinop"):
            r_ = b.vf_rbinop(self, tname, a)
            if r_ is not NotImplemented: return r_
        if isinstance(a, PyNum) and isinstance(b, PyNum):
            return self.num_binop(op, a, b)
        if isinstance(a, str) and isinstance(b, str) and tname == "Add": return a + b
        if isinstance(a, (Label, str)) and isinstance(b, (Label, str)) and tname == "Add":
            return Label(_ne(a) or _ne(b))
        if isinstance(a, list) and isinstance(b, list) and tname == "Add": return a + b
        if tname == "Add" and isinstance(b, QList) and (isinstance(a, QList) or (isinstance(a, list) and not a)):
            if isinstance(a, list): a = QList(z3.IntVal(0), b.src, b.idf, "[]")
            n1, s1, s2 = a.n, a.src, b.src
            r = QList(n1 + b.n, lambda p, n1=n1, s1=s1, s2=s2: z3.If(p < n1, s1(p), s2(p - n1)), b.idf, f"{a.name}+{b.name}")
            r.concat_of = (a, b)
            if hasattr(b, "elem_attr"): r.elem_attr = b.elem_attr
            return r
        if tname == "Add" and isinstance(a, QList) and isinstance(b, list) and all(isinstance(x, QElem) for x in b):
            r = QList(a.n, a.src, a.idf, a.name)
            for x in b: self.call_bound(r, "append", [x], {})
            return r
        if isinstance(a, Expl):
            meth = {"Add": "__add__", "Sub": "__sub__", "Mult": "__mul__", "Div": "__truediv__"}.get(tname)
            if meth is None: raise Unsupported(f"operator {tname} on explainable")
            if (a.kind, meth) in self.specs or not isinstance(b, Expl):
                return self.call_method(a, meth, [b], {})
            # python's protocol: type(a) does not define the operator -> reflected method of b
            rmeth = "__r" + meth[2:]
            if (b.kind, rmeth) in self.specs:
                return self.call_method(b, rmeth, [a], {})
            raise SymRaise("TypeError", f"unsupported operand types for {tname}")
        if isinstance(b, Expl):
            meth = {"Add": "__radd__", "Sub": "__rsub__", "Mult": "__rmul__", "Div": "__rtruediv__"}.get(tname)
            if meth is None: raise Unsupported(f"operator {tname} on explainable")
            return self.call_method(b, meth, [a], {})
        return self.lib_binop(tname, a, b)

    def num_binop(self, op, a, b):
        t = type(op).__name__
        bothint = a.is_int and b.is_int
        x, y = (a.z, b.z) if bothint else (a.r, b.r)
        if t == "Add": return PyNum(x + y)
        if t == "Sub": return PyNum(x - y)
        if t == "Mult": return PyNum(x * y)
        if t == "Div":
            if self.eng.decide(b.r == 0): raise SymRaise("ZeroDivisionError", "division by zero")
            return PyNum(a.r / b.r)
        if t == "Mod" and bothint: return PyNum(x % y)
        if t == "FloorDiv" and bothint: return PyNum(x / y)
        if t == "Pow" and z3.is_int_value(b.z):
            r = z3.RealVal(1) if not bothint else z3.IntVal(1)
            for _ in range(b.z.as_long()): r = r * x
            return PyNum(r)
        raise Unsupported(f"numeric operator {t}")

    def lib_binop(self, t, a, b):
        """pint / pandas arithmetic (libspec)"""
        # ---- Quantity with Quantity / number
        if isinstance(a, Qty) and isinstance(b, Qty):
            if t in ("Add", "Sub"):
                if a.unit.dim != b.unit.dim: raise SymRaise("DimensionalityError", "Quantity +/-")
                return Qty(a.phys + b.phys if t == "Add" else a.phys - b.phys, a.unit)
            if t == "Mult": return Qty(a.phys * b.phys, a.unit * b.unit)
            if t == "Div":
                if self.eng.decide(b.phys == 0): raise SymRaise("ZeroDivisionError", "Quantity / 0")
                return Qty(a.phys / b.phys, a.unit / b.unit)
        if isinstance(a, PyNum) and isinstance(b, Unit) and t == "Mult":
            q = Qty(a.r * b.f, b)
            if a.is_int: q.int_mag = a.z       # python int magnitude stays an int
            return q
        if isinstance(a, Unit) and isinstance(b, Unit):
            if t == "Mult": return a * b
            if t == "Div": return a / b
        if isinstance(a, Qty) and isinstance(b, Unit):
            if t == "Mult": return Qty(a.phys * b.f, a.unit * b)
            if t == "Div": return Qty(a.phys / b.f, a.unit / b)
        if isinstance(a, Qty) and isinstance(b, PyNum):
            if t == "Mult": return Qty(a.phys * b.r, a.unit)
            if t == "Div":
                if self.eng.decide(b.r == 0): raise SymRaise("ZeroDivisionError", "Quantity / 0")
                return Qty(a.phys / b.r, a.unit)
            if t in ("Add", "Sub"):
                if a.unit.dim != DIMLESS: raise SymRaise("DimensionalityError", "Quantity + number")
                return Qty(a.phys + b.r if t == "Add" else a.phys - b.r, Unit(DIMLESS, 1.0))
        if isinstance(a, PyNum) and isinstance(b, Qty):
            if t == "Mult": return Qty(a.r * b.phys, b.unit)
            if t == "Div":
                if self.eng.decide(b.phys == 0): raise SymRaise("ZeroDivisionError", "number / Quantity 0")
                return Qty(a.r / b.phys, Unit(DIMLESS, 1.0) / b.unit)
        # ---- DataFrame arithmetic
        if isinstance(a, DF) and isinstance(b, PyNum):
            if t == "Mult": return DF(L.vscale(a.vec, b.r), a.unit)
            if t == "Div":
                if self.eng.decide(b.r == 0): raise SymRaise("ZeroDivisionError", "df / 0")
                return DF(L.vscale(a.vec, 1 / b.r), a.unit)
        if isinstance(a, PyNum) and isinstance(b, DF) and t == "Mult":
            return DF(L.vscale(b.vec, a.r), b.unit)
        if isinstance(a, DF) and isinstance(b, Qty):
            if t == "Mult": return DF(L.vscale(a.vec, b.phys), a.unit * b.unit)
            if t == "Div":
                self.lib_pre("division by a non-zero quantity", b.phys != 0)
                return DF(L.vscale(a.vec, 1 / b.phys), a.unit / b.unit)
            if t in ("Add", "Sub"):
                if a.unit.dim != b.unit.dim: raise SymRaise("DimensionalityError", "df +/- Quantity")
                sgn = 1 if t == "Add" else -1
                return DF(L.vmap(a.vec, lambda x: x + sgn * b.phys), a.unit)
        if isinstance(a, Qty) and isinstance(b, DF):
            if t == "Mult": return DF(L.vscale(b.vec, a.phys), a.unit * b.unit)
            if t == "Div":
                self.lib_pre("series divisor has no zero entry", z3.Implies(b.vec.inidx(TT), b.vec.val(TT) != 0))
                return DF(L.vmap(b.vec, lambda x: a.phys / x), a.unit / b.unit)
        if isinstance(a, DF) and isinstance(b, DF):
            if t in ("Add", "Sub"):
                if a.unit.dim != b.unit.dim: raise SymRaise("DimensionalityError", "df +/- df")
                self.lib_pre_same_index(a.vec, b.vec, "DataFrame +/- DataFrame without fill")
                f = (lambda x, y: x + y) if t == "Add" else (lambda x, y: x - y)
                out = L.vpointwise_same_index(a.vec, b.vec, f)
                if a.vec.total is not None and b.vec.total is not None:
                    out.total = a.vec.total + b.vec.total if t == "Add" else a.vec.total - b.vec.total
                return DF(out, a.unit)
            if t == "Mult":
                self.lib_pre_same_index(a.vec, b.vec, "DataFrame * DataFrame without fill")
                return DF(L.vpointwise_same_index(a.vec, b.vec, lambda x, y: x * y), a.unit * b.unit)
            if t == "Div":
                self.lib_pre_same_index(a.vec, b.vec, "DataFrame / DataFrame")
                self.lib_pre("series divisor has no zero entry", z3.Implies(b.vec.inidx(TT), b.vec.val(TT) != 0))
                return DF(L.vpointwise_same_index(a.vec, b.vec, lambda x, y: x / y), a.unit / b.unit)
        if isinstance(a, Arr) and isinstance(b, Arr):
            self.lib_pre_same_positions(a, b, f"array {t}")
            f = {"Add": lambda x, y: x + y, "Sub": lambda x, y: x - y, "Mult": lambda x, y: x * y}.get(t)
            if f: return Arr(lambda tt_: f(a.mag(tt_), b.mag(tt_)), a.origin or b.origin, a.length or b.length)
        if isinstance(a, PyNum) and isinstance(b, Arr) and t == "Mult":
            return Arr(lambda tt_: a.r * b.mag(tt_), b.origin, b.length)
        if isinstance(a, Arr) and isinstance(b, PyNum) and t == "Mult":
            return Arr(lambda tt_: a.mag(tt_) * b.r, a.origin, a.length)
        if isinstance(a, TS) and isinstance(b, Opaque) and b.what == "timedelta" and t in ("Add", "Sub"):
            return TS(rv(a.tick) + b.payload if t == "Add" else rv(a.tick) - b.payload)
        if isinstance(a, TS) and isinstance(b, TS) and t == "Sub":
            return Opaque("timedelta", a.tick - b.tick)
        if isinstance(a, list) and isinstance(b, PyNum) and t == "Mult" and len(a) == 1:
            lst = SList(z3.If(b.z >= 0, b.z, z3.IntVal(0)), lambda i: a[0], "repeated", unordered=False)
            lst.const_elem = a[0]
            return lst
        if self.world is not None:
            r = self.world.lib_binop(self, t, a, b)
            if r is not None: return r
        raise Unsupported(f"binop {t} {type(a).__name__} {type(b).__name__}")

    def require(self, name, cond):
        """precondition of a contract: assumed while the contract of the function under verification is evaluated
        (harness), an obligation at every call site"""
        if getattr(self, "phase", "body") == "spec":
            if isinstance(cond, bool):
                if not cond: raise Abort()
                return
            if not self.eng.feasible([cond]): raise Abort()
            self.eng.assume(cond)
        else:
            self.eng.oblige(f"pre/{name}", cond, kind="pre")

    def lib_pre(self, what, cond):
        """precondition of a library contract: an obligation at the call site (assumed while a contract is evaluated)"""
        if getattr(self, "phase", "body") == "spec":
            if isinstance(cond, bool):
                if not cond: raise Abort()
                return
            self.eng.assume(cond); return
        self.eng.oblige(f"libpre/{what}", cond, kind="libpre")

    def add_universal(self, f):
        """f(t) holds for every time point t: instantiate at the skolem point and at every witness point known"""
        reg = self.eng.run.cache.setdefault("universals", ([], []))
        for t in [TT] + reg[1]: self.eng.assume_def(f(t))
        reg[0].append(f)

    def add_point(self, w):
        reg = self.eng.run.cache.setdefault("universals", ([], []))
        for f in reg[0]: self.eng.assume_def(f(w))
        reg[1].append(w)

    def lib_pre_same_index(self, a: Vec, b: Vec, what):
        if a.origin is b.origin: return
        self.eng.oblige(f"libpre/same-index ({what})", a.inidx(TT) == b.inidx(TT), kind="libpre")

    def lib_pre_same_positions(self, a: Arr, b: Arr, what):
        if a.origin is None or b.origin is None:
            la = a.length if a.origin is None else a.origin.n
            lb = b.length if b.origin is None else b.origin.n
            if la is None or lb is None: raise Unsupported(f"{what}: unknown length")
            if la is lb or z3.eq(_z(la), _z(lb)): return
            self.eng.oblige(f"libpre/same-length ({what})", _z(la) == _z(lb), kind="libpre")
            return
        if a.origin.origin is b.origin.origin: return
        self.eng.oblige(f"libpre/same-index ({what})", a.origin.inidx(TT) == b.origin.inidx(TT), kind="libpre")

    def vec_from_pintarr(self, pa: PintArr, idx: Index):
        arr, f = pa.arr, pa.unit.f
        if arr.origin is None:
            if arr.length is None or idx.origin.n is None: raise Unsupported("DataFrame from array of unknown length")
            if not (arr.length is idx.origin.n or z3.eq(_z(arr.length), _z(idx.origin.n))):
                self.eng.oblige("libpre/same-length (DataFrame from array and index)", _z(arr.length) == _z(idx.origin.n), kind="libpre")
        elif arr.origin.origin is not idx.origin.origin:
            self.eng.oblige("libpre/same-index (DataFrame from array and index)", arr.origin.inidx(TT) == idx.origin.inidx(TT), kind="libpre")
        o = idx.origin
        total = None
        if arr.origin is None and getattr(arr, "const", None) is not None and o.n is not None:
            total = arr.const * f * rv(o.n)
        elif getattr(arr, "total", None) is not None:
            total = arr.total * f
        return Vec(o.inidx, lambda t: arr.mag(t) * f, total=total, tmax=o.tmax, tmin=o.tmin, n=o.n, origin=o.origin)

    # ================================================================== calls
    def call(self, f, args, kwargs, node=None):
        if hasattr(f, "vf_invoke"): return f.vf_invoke(self, args, kwargs)
        if isinstance(f, BoundMethod): return self.call_bound(f.recv, f.name, args, kwargs)
        if isinstance(f, Builtin): return self.call_builtin(f.name, args, kwargs)
        if isinstance(f, ClassRef): return self.construct(f.name, args, kwargs)
        if isinstance(f, tuple) and f and f[0] == "localfunc":
            return self.exec_function(f[1], args, kwargs)
        if isinstance(f, tuple) and f and f[0] == "repo_function":
            return self.call_repo_function(f[1], args, kwargs)
        if isinstance(f, tuple) and f and f[0] == "lambda":
            lam, env = f[1], dict(f[2])
            for p, a in zip(lam.args.args, args): env[p.arg] = a
            return self.eval(lam.body, env)
        raise Unsupported(f"call of {f!r}")

    def call_repo_function(self, qualname, args, kwargs):
        spec = self.specs.get(qualname)
        if spec is not None:
            return spec(self, *args, **kwargs)
        raise Unsupported(f"call of repo function {qualname} without contract")

    def construct(self, cname, args, kwargs):
        spec = self.specs.get((cname, "__init__")) or self.specs.get((EXPL_CLASSES.get(cname), "__new__"))
        if spec is None: raise Unsupported(f"constructor {cname}")
        return spec(self, cname, args, kwargs)

    def call_method(self, recv, name, args, kwargs):
        if isinstance(recv, ExplU): recv = self.resolve(recv)
        if isinstance(recv, Expl):
            spec = self.specs.get((recv.kind, name))
            if spec is None:
                if name in ("__lt__", "__gt__", "__le__", "__ge__", "__rsub__", "__rtruediv__", "__neg__", "__round__"):
                    raise SymRaise("TypeError", f"{KIND_CLASS[recv.kind]} does not define {name}")
                raise Unsupported(f"method {KIND_CLASS[recv.kind]}.{name} has no contract")
            return spec(self, recv, *args, **kwargs)
        raise Unsupported(f"call_method on {type(recv).__name__}")

    def call_bound(self, recv, name, args, kwargs):
        if hasattr(recv, "vf_call"): return recv.vf_call(self, name, args, kwargs)
        if isinstance(recv, (Expl, ExplU)): return self.call_method(recv, name, args, kwargs)
        if isinstance(recv, ModelObj):
            if self.world is None: raise Unsupported("method call without world")
            return self.world.model_call(self, recv, name, args, kwargs)
        if isinstance(recv, Qty): return self.qty_method(recv, name, args, kwargs)
        if isinstance(recv, DF): return self.df_method(recv, name, args, kwargs)
        if isinstance(recv, Series): return self.series_method(recv, name, args, kwargs)
        if isinstance(recv, PintAccessor):
            if name == "to":
                df = recv.series.df
                u2 = self.as_unit(args[0])
                if u2.dim != df.unit.dim: raise SymRaise("DimensionalityError", "pint.to")
                return Series(DF(df.vec, u2))
        if isinstance(recv, Arr):
            if name in ("to_numpy", "copy", "astype"):
                a = Arr(recv.mag, recv.origin, recv.length); a.total = recv.total; a.const = recv.const
                if hasattr(recv, "prefix"): a.prefix = recv.prefix
                return a
        if isinstance(recv, PintArr):
            if name == "to_numpy": return self.call_bound(recv.arr, "to_numpy", args, kwargs)
        if isinstance(recv, Index):
            o = recv.origin
            if name == "max":
                self.index_facts(o); return TS(o.tmax)
            if name == "min":
                self.index_facts(o); return TS(o.tmin)
            if name == "duplicated" or name == "tz_localize":
                raise Unsupported(f"Index.{name}")
        if isinstance(recv, str):
            if name == "replace" and all(isinstance(a, str) for a in args): return recv.replace(*args)
            if name == "startswith" and isinstance(args[0], str): return recv.startswith(args[0])
            if name == "join": return Label(False)
            if name == "format": return Label(bool(recv))
        if isinstance(recv, Label):
            if name == "replace": return recv
        if isinstance(recv, KDict) and not recv.overlay:
            if name == "values": return SList(recv.keys.n, lambda k: recv.base(k), f"values({recv.keys.name})", unordered=recv.keys.unordered)
            if name == "keys": return recv.keys
        if isinstance(recv, SDict):
            if name == "keys": return list(recv.d.keys())
            if name == "values": return list(recv.d.values())
            if name == "items": return [(k, v) for k, v in recv.d.items()]
            if name == "update" and isinstance(args[0], SDict):
                recv.d.update(args[0].d); return NONE
            if name == "get":
                k = self.dict_key(args[0])
                return recv.d.get(k, args[1] if len(args) > 1 else NONE)
        if isinstance(recv, QList) and name == "append" and isinstance(args[0], QElem):
            n0, src0, j = recv.n, recv.src, args[0].j
            recv.src = lambda p, n0=n0, src0=src0, j=j: z3.If(p == n0, j, src0(p))
            recv.n = n0 + 1
            return NONE
        if isinstance(recv, list):
            if name == "append": recv.append(args[0]); return NONE
        if isinstance(recv, ClassRef) and name == "__new__":
            return Uninit(recv.name)
        if isinstance(recv, Uninit) and name == "__init__":
            recv.obj = self.construct(recv.cname, args, kwargs); return NONE
        if isinstance(recv, Opaque) and name == "name": return Label(True)
        if isinstance(recv, Opaque) and recv.what == "re.Match" and name == "groups": return list(recv.payload.groups())
        if isinstance(recv, Builtin):
            return self.call_builtin(f"{recv.name}.{name}", args, kwargs)
        if self.world is not None:
            r = self.world.call_bound(self, recv, name, args, kwargs)
            if r is not NotImplemented: return r
        raise Unsupported(f"method {type(recv).__name__}.{name}")

    def index_facts(self, v: Vec):
        """facts about tmin/tmax/len of a series at the skolem point"""
        key = ("index_facts", id(v))
        if key in self.eng.run.cache: return
        self.eng.run.cache[key] = True
        if v.tmax is None or v.tmin is None: raise Unsupported("series without tmin/tmax")
        self.add_universal(lambda t: z3.Implies(v.inidx(t), z3.And(v.tmin <= t, t <= v.tmax)))
        if v.n is not None:
            self.eng.assume(v.n >= 0)
            self.eng.assume(z3.Implies(v.n > 0, z3.And(v.inidx(v.tmin), v.inidx(v.tmax), v.tmin <= v.tmax)))
            self.add_universal(lambda t: z3.Implies(v.inidx(t), v.n > 0))
            self.add_point(v.tmin); self.add_point(v.tmax)

    def as_unit(self, x):
        if isinstance(x, Unit): return x
        if isinstance(x, Qty): return x.unit
        if isinstance(x, str): return self.units.parse(x)
        raise Unsupported(f"as_unit {type(x).__name__}")

    def qty_method(self, q: Qty, name, args, kwargs):
        if name == "to":
            u2 = self.as_unit(args[0])
            if u2.dim != q.unit.dim: raise SymRaise("DimensionalityError", "Quantity.to")
            return Qty(q.phys, u2)
        if name == "to_base_units": return Qty(q.phys, Unit(q.unit.dim, 1.0))
        if name == "check": return True
        raise Unsupported(f"Quantity.{name}")

    def df_method(self, df: DF, name, args, kwargs):
        if name == "shift":
            k = args[0] if args else kwargs.get("periods")
            if kwargs.get("freq") not in ("h", "H"): raise Unsupported("shift without freq='h'")
            if not isinstance(k, PyNum) or not k.is_int:
                if isinstance(k, PyNum): raise SymRaise("TypeError", "shift by non-integer")
                raise Unsupported("shift amount")
            return DF(L.vshift(df.vec, k.z), df.unit)
        if name in ("add", "mul"):
            other = args[0]
            fill = kwargs.get("fill_value", None)
            if isinstance(other, DF):
                if fill is None:
                    return self.lib_binop("Add" if name == "add" else "Mult", df, other)
                if name == "add":
                    if isinstance(fill, Qty):
                        if fill.unit.dim != df.unit.dim: raise SymRaise("DimensionalityError", "fill_value")
                        self.lib_pre("fill_value is zero", fill.phys == 0)
                    elif isinstance(fill, PyNum):
                        self.lib_pre("fill_value is zero", fill.r == 0)
                    else: raise Unsupported("fill_value kind")
                    if other.unit.dim != df.unit.dim: raise SymRaise("DimensionalityError", "DataFrame.add")
                    return DF(L.vaddfill(df.vec, other.vec), df.unit)
                else:
                    if not isinstance(fill, PyNum): raise Unsupported("mul fill_value kind")
                    self.lib_pre("fill_value is zero", fill.r == 0)
                    return DF(L.vmulfill(df.vec, other.vec), df.unit * other.unit)
            if isinstance(other, Qty) and name == "mul":
                return DF(L.vscale(df.vec, other.phys), df.unit * other.unit)
            raise Unsupported(f"DataFrame.{name}({type(other).__name__})")
        if name == "copy": return DF(df.vec, df.unit)
        if name == "cumsum":
            try: return DF(L.vcumsum(df.vec), df.unit)
            except L.LibUnsupported as e: raise Unsupported(str(e))
        if name in ("min", "max"):
            return Series(df).__class__ and ("df_reduce", name, df)
        if name == "equals":
            return Opaque("unspecified-bool")
        if name in ("tz_localize", "tz_convert", "groupby", "sort_index"):
            raise Unsupported(f"DataFrame.{name}")
        raise Unsupported(f"DataFrame.{name}")

    def series_method(self, s: Series, name, args, kwargs):
        v, unit = s.df.vec, s.df.unit
        eng = self.eng
        if name == "sum":
            if v.total is None: raise Unsupported("sum of a series without structural total")
            return Qty(v.total, unit)
        if name in ("max", "min") and getattr(self, "concrete_ticks", None) is not None:
            xs = [z3.simplify(v.val(z3.IntVal(t))) for t in self.concrete_ticks if z3.is_true(z3.simplify(v.inidx(z3.IntVal(t))))]
            if not xs: raise SymRaise("ValueError", "max of empty series")
            from fractions import Fraction
            fr = [Fraction(x.numerator_as_long(), x.denominator_as_long()) for x in xs]
            return Qty(z3.RealVal(str(max(fr) if name == "max" else min(fr))), unit)
        if name in ("max", "min"):
            m = eng.fresh(f"series_{name}")
            w = eng.fresh(f"series_{name}_at", I)
            bound = (lambda t: z3.Implies(v.inidx(t), v.val(t) <= m)) if name == "max" else (lambda t: z3.Implies(v.inidx(t), v.val(t) >= m))
            self.add_universal(bound)
            self.add_point(w)
            if v.n is None: raise Unsupported("max/min of a series without length")
            self.lib_pre(f"Series.{name}() of a non-empty series", v.n > 0)
            eng.assume(z3.Implies(v.n > 0, z3.And(v.inidx(w), v.val(w) == m)))
            return Qty(m, unit)
        if name == "mean":
            if v.total is None or v.n is None: raise Unsupported("mean without total/len")
            self.lib_pre("Series.mean() of a non-empty series", v.n > 0)
            return Qty(v.total / rv(v.n), unit)
        if name == "tolist": raise Unsupported("Series.tolist")
        raise Unsupported(f"Series.{name}")

    # ------------------------------------------------------------------ builtins
    def call_builtin(self, name, args, kwargs):
        for a_ in args:
            if hasattr(a_, "vf_builtin"):
                r_ = a_.vf_builtin(self, name, args, kwargs)
                if r_ is not NotImplemented: return r_
        if not args and name in self.hooks: return self.hooks[name](self)
        eng = self.eng
        if name == "isinstance": return self.isinstance(args[0], args[1])
        if name == "len":
            x = args[0]
            if isinstance(x, ExplU): x = self.resolve(x)
            if isinstance(x, (list, tuple, str)): return PyNum(z3.IntVal(len(x)))
            if isinstance(x, SDict): return PyNum(z3.IntVal(len(x.d)))
            if isinstance(x, SList): return PyNum(x.n)
            if isinstance(x, QList): return PyNum(x.n)
            if isinstance(x, PArr): return PyNum(_z(x.n))
            if isinstance(x, DF):
                if x.vec.n is None: raise Unsupported("len of series without length")
                eng.assume(x.vec.n >= 0)
                return PyNum(x.vec.n)
            if isinstance(x, Expl) and x.kind == "ehq": return self.call_builtin("len", [x.value], {})
            if isinstance(x, Index): return self.call_builtin("len", [DF(x.origin, None)], {})
            raise Unsupported(f"len({type(x).__name__})")
        if name == "range":
            a = [x.z if isinstance(x, PyNum) else None for x in args]
            if None in a: raise Unsupported("range args")
            lo, hi = (z3.IntVal(0), a[0]) if len(a) == 1 else (a[0], a[1])
            if any(x.sort() != I for x in (lo, hi)): raise SymRaise("TypeError", "range of float")
            lo, hi = z3.simplify(lo), z3.simplify(hi)
            if z3.is_int_value(lo) and z3.is_int_value(hi): return SRange(lo.as_long(), hi.as_long())
            return SRange(lo, hi)
        if name == "copy" or name == "copy.copy":
            x = args[0]
            if isinstance(x, Qty): return Qty(x.phys, x.unit)
            if isinstance(x, DF): return DF(x.vec, x.unit)
            if isinstance(x, (bool, PyNum, str)): return x
            if isinstance(x, ExplU): x = self.resolve(x)
            if isinstance(x, Expl): return self.call_method(x, "__copy__", [], {})
            raise Unsupported(f"copy({type(x).__name__})")
        if name == "re.search":
            # literal pattern on a concrete string: evaluated concretely (finite, complete enumeration of the allowed values)
            if not (isinstance(args[0], str) and isinstance(args[1], str)): raise Unsupported("re.search on symbolic text")
            import re as _re
            m = _re.search(args[0], args[1])
            return Opaque("re.Match", m) if m else NONE
        if name in ("math.floor", "math.ceil"):
            x = args[0]
            if not isinstance(x, PyNum): raise Unsupported(f"{name} of {type(x).__name__}")
            return PyNum(floor_i(x.r) if name == "math.floor" else ceil_i(x.r))
        if name == "int":
            x = args[0]
            if isinstance(x, PyNum):
                if x.is_int: return x
                # int() truncates toward zero
                return PyNum(z3.If(x.r >= 0, floor_i(x.r), ceil_i(x.r)))
            if isinstance(x, str): return PyNum(z3.IntVal(int(x)))
            raise Unsupported("int()")
        if name == "float":
            x = args[0]
            if isinstance(x, PyNum): return PyNum(x.r)
            raise Unsupported("float()")
        if name == "str":
            x = args[0]
            if isinstance(x, str): return x
            if isinstance(x, Unit): return Opaque("unitstr", x)
            return Label(True)
        if name == "getattr":
            o, n = args[0], args[1]
            if not isinstance(n, str): raise Unsupported("getattr with symbolic name")
            try:
                return self.getattr(o, n)
            except SymRaise as e:
                if e.exc == "AttributeError" and len(args) > 2: return args[2]
                raise
        if name == "sum": return self.builtin_sum(args, kwargs)
        if name == "round":
            x, nd = args[0], (args[1] if len(args) > 1 else None)
            if isinstance(x, (Expl, ExplU)): return self.call_method(x, "__round__", [nd], {})
            if isinstance(x, Qty):
                q = Qty(self.round_term(x.mag, nd) * x.unit.f, x.unit); return q
            if isinstance(x, PyNum): return PyNum(self.round_term(x.r, nd))
            raise Unsupported("round()")
        if name == "abs" and isinstance(args[0], PyNum):
            z = args[0].z; return PyNum(z3.If(z >= 0, z, -z))
        if name in ("np.ceil", "np.abs", "np.round", "np.floor"):
            x = args[0]
            f = {"np.ceil": ceil_r, "np.abs": lambda z: z3.If(z >= 0, z, -z), "np.floor": floor_r}.get(name)
            if name == "np.round":
                nd = args[1] if len(args) > 1 else None
                f = lambda z: self.round_term(z, nd)
            if isinstance(x, Arr):
                return Arr(lambda t: f(x.mag(t)), x.origin, x.length)
            if isinstance(x, Qty): return Qty(f(x.mag) * x.unit.f, x.unit)
            if isinstance(x, PyNum): return PyNum(f(x.r))
            raise Unsupported(f"{name}({type(x).__name__})")
        if name == "np.cumsum" and isinstance(args[0], Arr):
            a = args[0]
            pf = getattr(a, "prefix", None)
            if pf is None: raise Unsupported("np.cumsum of an array without structural prefix")
            return Arr(lambda t: pf(t), a.origin, a.length)
        if name == "np.full" and "shape" in kwargs and isinstance(kwargs["shape"], PyNum) and isinstance(kwargs.get("fill_value"), PyNum):
            c = kwargs["fill_value"].r
            return PArr(kwargs["shape"].z, lambda p: c)
        if name == "enumerate" and isinstance(args[0], Index):
            o = args[0].origin
            if getattr(o, "range_start", None) is None: raise Unsupported("enumerate over a non-range index")
            s0 = o.range_start
            lst = SList(o.n, lambda i: (PyNum(i), TS(s0 + HOUR * i)), "enumerate(period_index)")
            return lst
        if name == "timedelta":
            if "days" in kwargs and isinstance(kwargs["days"], PyNum): return Opaque("timedelta", kwargs["days"].r * 1440)
            if "hours" in kwargs and isinstance(kwargs["hours"], PyNum): return Opaque("timedelta", kwargs["hours"].r * 60)
            raise Unsupported("timedelta form")
        if name == "pd.date_range":
            st, en = kwargs.get("start"), kwargs.get("end")
            if not (isinstance(st, TS) and isinstance(en, TS)) or kwargs.get("freq") not in ("h", "H"): raise Unsupported("date_range form")
            # inclusive end point: N = floor((end - start) / 1h) + 1 (0 when end < start)
            span = rv(en.tick) - rv(st.tick)
            n = z3.If(span >= 0, floor_i(span / HOUR) + 1, z3.IntVal(0))
            s0 = st.tick
            v = Vec(lambda t: z3.And(t >= s0, t < s0 + HOUR * n, (t - s0) % HOUR == 0), lambda t: z3.RealVal(0), tmin=s0, tmax=s0 + HOUR * (n - 1), n=n)
            v.range_start = s0
            return Index(v)
        if name in ("np.full", "np.ones", "np.zeros"):
            n = args[0] if args else kwargs.get("shape")
            if not isinstance(n, PyNum): raise Unsupported("np.full length")
            if name == "np.full":
                c = args[1] if len(args) > 1 else kwargs["fill_value"]
                if isinstance(c, Qty): c = PyNum(c.mag)     # numpy stores the bare magnitude (pint strips the unit with a warning)
                if not isinstance(c, PyNum): raise Unsupported("np.full value")
                cr = c.r
            else:
                cr = z3.RealVal(1 if name == "np.ones" else 0)
            a = Arr(lambda t: cr, None, n.z); a.const = cr
            return a
        if name in ("np.maximum", "np.minimum"):
            a, b = args
            if not (isinstance(a, Arr) and isinstance(b, Arr)): raise Unsupported(name)
            self.lib_pre_same_positions(a, b, name)
            if name == "np.maximum": f = lambda x, y: z3.If(x >= y, x, y)
            else: f = lambda x, y: z3.If(x <= y, x, y)
            return Arr(lambda t: f(a.mag(t), b.mag(t)), a.origin if a.origin is not None else b.origin,
                       a.length if a.length is not None else b.length)
        if name in ("pint_pandas.PintArray", "PintArray"):
            arr = args[0]
            unit = self.as_unit(kwargs.get("dtype", args[1] if len(args) > 1 else None))
            if not isinstance(arr, Arr): raise Unsupported("PintArray of non-array")
            return PintArr(arr, unit)
        if name == "pd.DataFrame" and args and isinstance(args[0], PArr) and isinstance(kwargs.get("index"), Index):
            arr, idx = args[0], kwargs["index"]
            o = idx.origin
            if getattr(o, "range_start", None) is None: raise Unsupported("DataFrame from array on a non-range index")
            dt = kwargs.get("dtype")
            unit = dt.payload if isinstance(dt, Opaque) and dt.what == "pint-dtype" else None
            if unit is None: raise Unsupported("DataFrame dtype")
            self.lib_pre("array length equals index length", _z(arr.n) == _z(o.n))
            s0 = o.range_start; f = unit.f
            v = Vec(o.inidx, lambda t: arr.at((t - s0) / HOUR) * f, tmin=o.tmin, tmax=o.tmax, n=o.n)
            v.range_start = s0
            return DF(v, unit)
        if name == "pd.DataFrame":
            data = args[0] if args else kwargs.get("data")
            idx = kwargs.get("index")
            if isinstance(data, SDict) and list(data.d.keys()) == ["value"] and isinstance(data.d["value"], PintArr) and isinstance(idx, Index):
                pa = data.d["value"]
                return DF(self.vec_from_pintarr(pa, idx), pa.unit)
            raise Unsupported("pd.DataFrame form")
        if name == "u":
            x = args[0]
            if isinstance(x, str): return self.units.parse(x)
            if isinstance(x, Opaque) and x.what == "unitstr": return x.payload
            raise Unsupported("u(<non literal>)")
        if name in ("list", "tuple"):
            x = args[0] if args else []
            if isinstance(x, (list, tuple)): return list(x)
            if isinstance(x, SList): return x
            if isinstance(x, SDict): return list(x.d.keys())
            r = self.iterate_concrete_or_none(x)
            if r is not None: return r
            raise Unsupported(f"list({type(x).__name__})")
        if name == "type": return ("type", args[0])
        if name.startswith("logger."): return NONE
        if name == "print": return NONE
        if name == "max" or name == "min":
            if len(args) == 2 and all(isinstance(a, PyNum) for a in args):
                a, b = args
                x, y = (a.z, b.z) if a.is_int and b.is_int else (a.r, b.r)
                return PyNum(z3.If(x >= y, x, y) if name == "max" else z3.If(x <= y, x, y))
        if (name == "all" or name == "any") and isinstance(args[0], QBoolGen):
            g = args[0]; k = self.eng.fresh("k_gen", I)
            rng = z3.And(0 <= k, k < g.lst.n)
            return z3.Exists([k], z3.And(rng, g.test(g.lst.src(k)))) if name == "any" else z3.ForAll([k], z3.Implies(rng, g.test(g.lst.src(k))))
        if name == "all" or name == "any":
            items = self.iterate_concrete(args[0])
            ts = [self.truth(x) for x in items]
            return all(ts) if name == "all" else any(ts)
        if name == "issubclass":
            pc_ = self.hooks.get("py_class", lambda n: None)
            real_ = [a_.obj if hasattr(a_, "obj") else pc_(getattr(a_, "name", None)) for a_ in args]
            if all(r_ is not None for r_ in real_): return issubclass(real_[0], real_[1])
            if self.world is not None: return self.world.issubclass(args[0], args[1])
        if name == "map":
            f, xs = args
            return [self.call(f, [x], {}) for x in self.iterate_concrete(xs)]
        if self.world is not None:
            r = self.world.call_builtin(self, name, args, kwargs)
            if r is not NotImplemented: return r
        raise Unsupported(f"builtin {name}")

    def round_term(self, x, nd):
        """round(x, nd) / np.round: an uninterpreted function RND_nd(x) constrained, at each application, to be a multiple
        of 10^-nd within half a unit of x (ties: either neighbour -- round-half-even is not modelled)"""
        if nd is None or nd is NONE: k = 0
        elif isinstance(nd, PyNum) and z3.is_int_value(nd.z): k = nd.z.as_long()
        else: raise Unsupported("round digits")
        scale = z3.RealVal(10 ** k)
        xs = z3.simplify(x)
        if z3.is_rational_value(xs):
            from fractions import Fraction
            return z3.RealVal(str(round(Fraction(xs.numerator_as_long(), xs.denominator_as_long()), k)))
        rnd = z3.Function(f"RND{k}", R, R); rndi = z3.Function(f"RNDI{k}", R, I)
        r = rnd(x)
        self.eng.assume(z3.And(r * scale == z3.ToReal(rndi(x)), r - x <= 1 / (2 * scale), x - r <= 1 / (2 * scale)))
        return r

    round_term_at = round_term

    def note_read(self, e):
        """ghost read-set: attached model values whose content the function under verification has used"""
        if isinstance(e, Expl) and e.attached:
            self.eng.run.cache.setdefault("reads", set()).add(e.attached)

    def isinstance(self, x, cls):
        if isinstance(cls, tuple): return any(self.isinstance(x, c) for c in cls)
        if isinstance(x, ExplU): x = self.resolve(x)
        if "py_isinstance" in self.hooks:
            real = cls.obj if hasattr(cls, "obj") else self.hooks.get("py_class", lambda n: None)(getattr(cls, "name", None))
            if real is not None: return self.hooks["py_isinstance"](x, real)
        cname = cls.name if isinstance(cls, (ClassRef, Builtin)) else getattr(cls, "vf_classname", None)
        if cname is None: raise Unsupported(f"isinstance class {cls!r}")
        if hasattr(x, "vf_isinstance"): return x.vf_isinstance(self, cname)
        # branching on whether a model value is "no value" or a quantity uses its content (ghost read-set, C08 completeness)
        if isinstance(x, Expl) and cname in KIND_CLASS.values(): self.note_read(x)
        if cname in ("numbers.Number",):
            return isinstance(x, PyNum) or isinstance(x, bool)
        if cname in ("Quantity",): return isinstance(x, Qty)
        if cname in ("pd.DataFrame",): return isinstance(x, DF)
        if cname in ("float",): return isinstance(x, PyNum) and not x.is_int
        if cname in ("int",): return isinstance(x, PyNum) and x.is_int
        if cname in ("str",): return isinstance(x, (str, Label))
        if cname in ("list",): return isinstance(x, (list, SList))
        if cname in ("dict",): return isinstance(x, SDict)
        if isinstance(x, Expl):
            # SourceValue etc. are subclasses: an input may be one; code under contract never tests for Source* classes
            if cname in ("SourceValue", "SourceObject", "SourceHourlyValues"): raise Unsupported("isinstance Source*")
            return cname in EXPL_ISA[x.kind]
        if isinstance(x, ModelObj):
            if self.world is not None: return self.world.isinstance_model(x, cname)
        if isinstance(x, (PyNum, bool, str, Label, Qty, DF, NoneV, Opaque, list, SDict, SList, tuple, Unit)):
            return False
        raise Unsupported(f"isinstance({type(x).__name__}, {cname})")

    def builtin_sum(self, args, kwargs):
        xs = args[0]
        start = args[1] if len(args) > 1 else kwargs.get("start", PyNum(z3.IntVal(0)))
        if isinstance(xs, SDict): xs = list(xs.d.keys())
        if isinstance(xs, (list, tuple)):
            acc = start
            for x in xs:
                acc = self.binop(ast.Add(), acc, x)
            return acc
        if isinstance(xs, SList):
            if self.world is None: raise Unsupported("sum over symbolic list without world")
            return self.world.sum_slist(self, xs, start)
        raise Unsupported(f"sum over {type(xs).__name__}")

    # ================================================================== equivalence of values (obligations)
    def equiv(self, got, want, name):
        """emit obligations `got == want` on the views (want may be an ExplU / spec value)"""
        eng = self.eng
        if hasattr(want, "vf_equiv"): return want.vf_equiv(self, got, name)
        if isinstance(want, KDict):
            if not isinstance(got, KDict): eng.oblige(f"{name}/kind", False); return
            KK = z3.Int("key!")      # skolem key
            saved = list(eng.run.pc)
            eng.assume(z3.And(KK >= 0, KK < want.keys.n))
            def has(d):
                f_ = z3.BoolVal(True) if d.dom is None else d.dom(KK)
                return z3.Or([KK == ok for ok, ov in d.overlay] + [f_])
            if got.dom is not None or want.dom is not None:
                eng.oblige(f"{name}/keys: exactly the same keys have an entry", has(got) == has(want))
                if not eng.decide(has(want)):
                    eng.run.pc[:] = saved; return
            # value of the code-level dict at the skolem key: last matching write, else base
            # when the key is the one of a write, both sides are read at the index term of that write (equal to the skolem key on
            # this path): ghost functions are named after the text of their summand, so the same entry must be spelled the same way
            def lookup(d, at):
                for ok, ov in reversed(d.overlay):
                    if eng.decide(KK == ok): return ov, ok
                return d.base(at), at
            gv, gi = lookup(got, KK)
            wv, _ = lookup(want, gi)
            self.equiv(gv, wv, name + "[key]")
            eng.run.pc[:] = saved
            return
        if isinstance(want, Opt):
            if isinstance(got, Opt): got = self.resolve_opt(got)
            eng.oblige(f"{name}/none-ness", want.is_none == (got is NONE))
            if got is not NONE:
                self.equiv(got, want.value, name)
            return
        if isinstance(got, Opt): got = self.resolve_opt(got)
        if isinstance(want, ExplU):
            if isinstance(got, ExplU):
                eng.oblige(f"{name}/kind", got.is_empty == want.is_empty)
                if self.eng.feasible([z3.Not(want.is_empty), z3.Not(got.is_empty)]):
                    saved = list(eng.run.pc)
                    eng.assume(z3.Not(want.is_empty)); eng.assume(z3.Not(got.is_empty))
                    self.equiv(got.nonempty, want.nonempty, name)
                    eng.run.pc[:] = saved
                return
            if isinstance(got, Expl):
                eng.oblige(f"{name}/kind", want.is_empty == (got.kind == "empty"))
                if got.kind != "empty":
                    self.equiv(got, want.nonempty, name)
                return
            eng.oblige(f"{name}/kind", False); return
        if isinstance(got, ExplU):
            got = self.resolve(got)
        if isinstance(want, Expl):
            if not isinstance(got, Expl) or got.kind != want.kind:
                eng.oblige(f"{name}/kind", False); return
            if want.kind == "eq":
                self.equiv(got.value, want.value, name)
            elif want.kind == "ehq":
                self.equiv(got.value, want.value, name)
            return
        if isinstance(want, Qty):
            if not isinstance(got, Qty): eng.oblige(f"{name}/kind", False); return
            eng.oblige(f"{name}/dimension", got.unit.dim == want.unit.dim)
            eng.oblige(f"{name}/phys", got.phys == want.phys)
            if getattr(want, "check_unit", False):
                eng.oblige(f"{name}/unit", rv(got.unit.factor) == rv(want.unit.factor))
            return
        if isinstance(want, DF):
            if not isinstance(got, DF): eng.oblige(f"{name}/kind", False); return
            eng.oblige(f"{name}/dimension", got.unit.dim == want.unit.dim)
            if getattr(want, "check_unit", False):
                eng.oblige(f"{name}/unit", rv(got.unit.factor) == rv(want.unit.factor))
            self.equiv_vec(got.vec, want.vec, name)
            return
        if isinstance(want, PyNum):
            if not isinstance(got, PyNum): eng.oblige(f"{name}/kind", False); return
            eng.oblige(f"{name}/value", got.r == want.r); return
        if isinstance(want, Unit):
            if not isinstance(got, Unit): eng.oblige(f"{name}/kind", False); return
            eng.oblige(f"{name}/unit dimension", got.dim == want.dim)
            eng.oblige(f"{name}/unit factor", rv(got.factor) == rv(want.factor)); return
        if want is NONE:
            eng.oblige(f"{name}/none", got is NONE); return
        if isinstance(want, bool):
            eng.oblige(f"{name}/bool", got is want if isinstance(got, bool) else False); return
        raise Unsupported(f"equiv with {type(want).__name__}")

    def equiv_vec(self, g: Vec, w: Vec, name):
        eng = self.eng
        eng.oblige(f"{name}/index", g.inidx(TT) == w.inidx(TT))
        eng.oblige(f"{name}/pointwise", z3.Implies(w.inidx(TT), g.val(TT) == w.val(TT)))
        if w.total is not None:
            if g.total is None: eng.undecided(f"{name}/total", "result total not structurally determined")
            else: eng.oblige(f"{name}/total", g.total == w.total)


class LoopCtx:
    def __init__(self, interp, env, it, lo, hi, ordinal):
        self.interp, self.env, self.it, self.lo, self.hi, self.ordinal = interp, dict(env), it, lo, hi, ordinal


def _load(t):
    if isinstance(t, ast.Name): return ast.Name(id=t.id, ctx=ast.Load())
    if isinstance(t, ast.Attribute): return ast.Attribute(value=t.value, attr=t.attr, ctx=ast.Load())
    raise Unsupported("augassign target")


def _z(x):
    if isinstance(x, int): return z3.IntVal(x)
    return x


def _cmp(op, x, y):
    if not z3.is_expr(x) and not z3.is_expr(y):
        import operator as O
        return {ast.Eq: O.eq, ast.NotEq: O.ne, ast.Lt: O.lt, ast.LtE: O.le, ast.Gt: O.gt, ast.GtE: O.ge}[type(op)](x, y)
    if z3.is_expr(x) and z3.is_expr(y) and x.sort() != y.sort():
        x, y = rv(x), rv(y)
    if not z3.is_expr(x): x = z3.IntVal(x) if y.sort() == I else rv(x)
    if not z3.is_expr(y): y = z3.IntVal(y) if x.sort() == I else rv(y)
    return {ast.Eq: x == y, ast.NotEq: x != y, ast.Lt: x < y, ast.LtE: x <= y, ast.Gt: x > y, ast.GtE: x >= y}[type(op)]


def _is_zero(p):
    z = z3.simplify(p.z)
    return (z3.is_int_value(z) and z.as_long() == 0) or (z3.is_rational_value(z) and z.numerator_as_long() == 0)


def _ne(x):
    return bool(x) if isinstance(x, str) else x.nonempty
