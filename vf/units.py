"""Literal units: factor and dimension are read from the *real* pint registry of /repo at check time
(so efootprint/constants/custom_units.txt and units.py are part of what is verified)."""
import os, sys, warnings
from fractions import Fraction
from .sym import Unit, Dim, DIMLESS
import z3


class Units:
    def __init__(self, repo=None):
        repo = repo or os.environ.get("VF_REPO", "/repo")
        if repo not in sys.path:
            sys.path.insert(0, repo)
        warnings.simplefilter("ignore")
        from efootprint.constants.units import u
        self.u = u
        self._cache = {}

    def _mk(self, pint_unit, name):
        q = (1 * pint_unit).to_base_units()
        dim = Dim({k: int(v) if float(v).is_integer() else float(v) for k, v in dict(pint_unit.dimensionality).items()})
        mag = q.magnitude
        fac = z3.RealVal(str(Fraction(mag).limit_denominator(10**30))) if not float(mag).is_integer() else z3.RealVal(int(mag))
        # offset units are not used by the code base
        return Unit(dim, fac, name)

    def literal(self, name):
        if name not in self._cache:
            pu = getattr(self.u, name)
            self._cache[name] = self._mk(pu, name)
        return self._cache[name]

    def parse(self, text):
        key = "parse:" + text
        if key not in self._cache:
            q = self.u(text)
            pu = q.units if hasattr(q, "units") else q
            self._cache[key] = self._mk(pu, text)
        return self._cache[key]

    def from_pint(self, pint_unit):
        return self._mk(pint_unit, str(pint_unit))

    def dim_of(self, pint_quantity):
        return Dim({k: int(v) if float(v).is_integer() else float(v) for k, v in dict(pint_quantity.dimensionality).items()})
