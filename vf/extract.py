"""Extraction of the functions under contract from /repo's *current working tree* (DESIGN.md 2.1).

Every run re-reads the source files, finds each function by qualified name and hands the `ast.FunctionDef` to the
VC generator.  What extraction drops: decorators (kept as call convention), annotations, docstrings.
"""
import ast, hashlib, os

REPO = os.environ.get("VF_REPO", "/repo")
_cache = {}


def module_path(module):
    return os.path.join(REPO, *module.split(".")) + ".py"


def load_module(module):
    if module not in _cache:
        path = module_path(module)
        src = open(path, encoding="utf-8").read()
        _cache[module] = (path, src, ast.parse(src))
    return _cache[module]


class Extracted:
    def __init__(self, qualname, node, path, src):
        self.qualname, self.node, self.path = qualname, node, path
        seg = ast.get_source_segment(src, node) or ""
        self.source = seg
        self.sha256 = hashlib.sha256(seg.encode()).hexdigest()
        self.lines = (node.lineno, node.end_lineno)
        self.decorators = [ast.unparse(d) for d in node.decorator_list]

    def info(self):
        return {"function": self.qualname, "file": os.path.relpath(self.path, REPO), "lines": list(self.lines),
                "sha256": self.sha256[:16]}


def extract(qualname):
    """qualname = 'pkg.mod.func' or 'pkg.mod.Class.func'"""
    parts = qualname.split(".")
    for cut in range(len(parts) - 1, 0, -1):
        module = ".".join(parts[:cut])
        if os.path.exists(module_path(module)):
            rest = parts[cut:]
            break
    else:
        raise KeyError(f"no module for {qualname}")
    path, src, tree = load_module(module)
    body = tree.body
    node = None
    for i, name in enumerate(rest):
        node = next((n for n in body if isinstance(n, (ast.FunctionDef, ast.ClassDef)) and n.name == name), None)
        if node is None:
            raise KeyError(f"{qualname}: '{name}' not found in {path}")
        body = node.body
    if not isinstance(node, ast.FunctionDef):
        raise KeyError(f"{qualname} is not a function")
    return Extracted(qualname, node, path, src)


def class_node(module, clsname):
    path, src, tree = load_module(module)
    return next(n for n in tree.body if isinstance(n, ast.ClassDef) and n.name == clsname)


def reset_cache():
    _cache.clear()
