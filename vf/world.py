"""Symbolic model heap for the numeric profile: ModelingObjects whose attributes are created lazily from a schema.

* input attributes: kind/dimension read from the REAL classes at check time (`default_values()` + `__init__` annotations)
* calculated attributes: kind/dimension declared in `SCHEMA` below (the data-structure invariant every `update_<attr>`
  must establish and every reader may assume)
* link attributes / look-up properties: symbolic objects and symbolic lists (`SList`), duplicate free
* any other property/method is found in the real class (MRO) and either applied by contract or inlined from its AST.
"""
from __future__ import annotations
import ast, os, sys, warnings, inspect
import z3
from .sym import *
from .engine import SymRaise, Unsupported, Abort, TT
from .extract import extract, load_module, REPO
from . import interp as IP

ENERGY = Dim({"[mass]": 1, "[length]": 2, "[time]": -2})
POWER = Dim({"[mass]": 1, "[length]": 2, "[time]": -3})
MASS = Dim({"[mass]": 1})
TIME = Dim({"[time]": 1})

# (class, attribute) -> (kinds, dimension or callable(obj)->Dim).  kinds: "E|H" Empty-or-hourly, "Q" quantity,
# "E|Q" Empty-or-quantity, "D" dict of E|H keyed by usage pattern, "O" opaque explainable object
def _compute_dim(w, o): return w.input_dim(o, "compute")


SCHEMA = {
    ("UsagePattern", "utc_hourly_usage_journey_starts"): ("H", DIMLESS),
    ("UsagePattern", "nb_usage_journeys_in_parallel"): ("E|H", DIMLESS),
    ("UsagePattern", "devices_energy"): ("E|H", ENERGY),
    ("UsagePattern", "devices_energy_footprint"): ("E|H", MASS),
    ("UsagePattern", "devices_fabrication_footprint"): ("E|H", MASS),
    ("UsagePattern", "energy_footprint"): ("E|H", MASS),
    ("UsagePattern", "instances_fabrication_footprint"): ("E|H", MASS),
    ("UsageJourney", "duration"): ("E|Q", TIME),
    ("JobBase", "hourly_occurrences_per_usage_pattern"): ("D", DIMLESS),
    ("JobBase", "hourly_avg_occurrences_per_usage_pattern"): ("D", DIMLESS),
    ("JobBase", "hourly_data_transferred_per_usage_pattern"): ("D", DIMLESS),
    ("JobBase", "hourly_data_stored_per_usage_pattern"): ("D", DIMLESS),
    ("JobBase", "hourly_occurrences_across_usage_patterns"): ("E|H", DIMLESS),
    ("JobBase", "hourly_avg_occurrences_across_usage_patterns"): ("E|H", DIMLESS),
    ("JobBase", "hourly_data_transferred_across_usage_patterns"): ("E|H", DIMLESS),
    ("JobBase", "hourly_data_stored_across_usage_patterns"): ("E|H", DIMLESS),
    ("ServerBase", "hour_by_hour_ram_need"): ("E|H", DIMLESS),
    ("ServerBase", "hour_by_hour_compute_need"): ("E|H", _compute_dim),
    ("ServerBase", "occupied_ram_per_instance"): ("Q", DIMLESS),
    ("ServerBase", "occupied_compute_per_instance"): ("Q", _compute_dim),
    ("ServerBase", "available_ram_per_instance"): ("Q", DIMLESS),
    ("ServerBase", "available_compute_per_instance"): ("Q", _compute_dim),
    ("InfraHardware", "raw_nb_of_instances"): ("E|H", DIMLESS),
    ("InfraHardware", "nb_of_instances"): ("E|H", DIMLESS),
    ("InfraHardware", "instances_fabrication_footprint"): ("E|H", MASS),
    ("InfraHardware", "instances_energy"): ("E|H", ENERGY),
    ("InfraHardware", "energy_footprint"): ("E|H", MASS),
    ("Storage", "carbon_footprint_fabrication"): ("Q", MASS),
    ("Storage", "power"): ("Q", POWER),
    ("Storage", "storage_delta"): ("E|H", DIMLESS),
    ("Storage", "full_cumulative_storage_need"): ("E|H", DIMLESS),
    ("Storage", "nb_of_active_instances"): ("E|H", DIMLESS),
    ("Network", "energy_footprint"): ("E|H", MASS),
    ("System", "total_footprint"): ("E|H", MASS),
    ("Service", "base_ram_consumption"): ("E|Q", DIMLESS),
    ("Service", "base_compute_consumption"): ("E|Q", lambda w, o: (getattr(o, "dims", None) or {}).get("base_compute_consumption", Dim({"[cpu_core]": 1}))),
    ("GPUServer", "carbon_footprint_fabrication"): ("Q", MASS), ("GPUServer", "power"): ("Q", POWER),
    ("GPUServer", "idle_power"): ("Q", POWER), ("GPUServer", "ram"): ("Q", DIMLESS),
    ("BoaviztaCloudServer", "carbon_footprint_fabrication"): ("Q", MASS), ("BoaviztaCloudServer", "power"): ("Q", POWER),
    ("BoaviztaCloudServer", "ram"): ("Q", DIMLESS), ("BoaviztaCloudServer", "compute"): ("Q", Dim({"[cpu_core]": 1})),
    ("BoaviztaCloudServer", "api_call_response"): ("O", None),
    ("WebApplicationJob", "request_duration"): ("Q", TIME), ("WebApplicationJob", "compute_needed"): ("Q", Dim({"[cpu_core]": 1})),
    ("WebApplicationJob", "ram_needed"): ("Q", DIMLESS),
    ("VideoStreamingJob", "request_duration"): ("Q", TIME), ("VideoStreamingJob", "dynamic_bitrate"): ("Q", Dim({"[time]": -1})),
    ("VideoStreamingJob", "data_transferred"): ("Q", DIMLESS), ("VideoStreamingJob", "compute_needed"): ("Q", Dim({"[cpu_core]": 1})),
    ("VideoStreamingJob", "ram_needed"): ("Q", DIMLESS),
    ("GenAIJob", "output_token_weights"): ("Q", DIMLESS), ("GenAIJob", "data_stored"): ("Q", DIMLESS),
    ("GenAIJob", "data_transferred"): ("Q", DIMLESS), ("GenAIJob", "request_duration"): ("Q", TIME),
    ("GenAIJob", "ram_needed"): ("Q", DIMLESS), ("GenAIJob", "compute_needed"): ("Q", Dim({"[gpu]": 1})),
    ("GenAIModel", "active_params"): ("Q", DIMLESS), ("GenAIModel", "total_params"): ("Q", DIMLESS),
    ("GenAIModel", "base_ram_consumption"): ("Q", DIMLESS),
}

# unit invariants: calculated attributes that are always expressed in a fixed literal unit (magnitude-level code relies on it)
UNIT_INV = {("InfraHardware", "raw_nb_of_instances"): "dimensionless", ("InfraHardware", "nb_of_instances"): "dimensionless",
            ("Storage", "nb_of_active_instances"): "dimensionless"}

# link attributes: (class, attr) -> target class ; list links: (class, attr) -> (element class, unordered)
LINKS = {("Job", "server"): "Server", ("ServerBase", "storage"): "Storage", ("UsagePattern", "usage_journey"): "UsageJourney",
         ("UsagePattern", "network"): "Network", ("UsagePattern", "country"): "Country", ("ServiceJob", "service"): "Service",
         ("Service", "server"): "Server",
         ("VideoStreamingJob", "service"): "VideoStreaming", ("WebApplicationJob", "service"): "WebApplication", ("GenAIJob", "service"): "GenAIModel",
         ("GenAIModel", "server"): "GPUServer"}
LISTS = {("UsagePattern", "devices"): ("Device", False), ("UsageJourney", "uj_steps"): ("UsageJourneyStep", False),
         ("UsageJourneyStep", "jobs"): ("JobBase", False), ("System", "usage_patterns"): ("UsagePattern", False)}
# reverse look-ups (set-derived: order unspecified, duplicate free). Verified against the link relation in the C16 check.
LOOKUPS = {("ServerBase", "jobs"): "Job", ("ServerBase", "installed_services"): "Service", ("Storage", "jobs"): "Job",
           ("Network", "usage_patterns"): "UsagePattern", ("Network", "jobs"): "JobBase", ("JobBase", "usage_patterns"): "UsagePattern",
           ("UsagePattern", "jobs"): "JobBase", ("System", "servers"): "ServerBase", ("System", "storages"): "Storage",
           ("System", "networks"): "Network", ("Storage", "modeling_obj_containers"): "Server",
           ("UsageJourney", "jobs"): "JobBase", ("Service", "jobs"): "JobBase"}


class World:
    def __init__(self, units):
        self.units = units
        warnings.simplefilter("ignore")
        if REPO not in sys.path: sys.path.insert(0, REPO)
        import logging
        from efootprint.logger import logger
        logger.setLevel(logging.CRITICAL)
        for h in logger.handlers: h.setLevel(logging.CRITICAL)
        from efootprint.core import all_classes_in_order as aco
        from efootprint.abstract_modeling_classes.modeling_object import ModelingObject
        self.classes = {}
        def walk(c):
            if c.__name__ in self.classes or c is object: return
            self.classes[c.__name__] = c
            for b in c.__mro__[1:]: walk(b)
        for c in aco.ALL_EFOOTPRINT_CLASSES + aco.CANONICAL_COMPUTATION_ORDER: walk(c)
        self.canonical_order = [c.__name__ for c in aco.CANONICAL_COMPUTATION_ORDER]
        self.specs = {}           # (defining class, member) -> spec callable(I, obj, *args)
        self.loop_specs = {}      # qualified function name -> {ordinal: loop spec}
        self.no_inline = set()
        self._calc_cache = {}
        self.list_hooks = {}      # (class, list attribute) -> hook(I, owner, slist): element dimension overrides etc.
        self.attr_invariants = {} # (class, attribute) -> hook(I, owner, value): facts a reader may assume (consistent state)

    # ------------------------------------------------------------------ class info from the real classes
    def mro(self, cname):
        return [c.__name__ for c in self.classes[cname].__mro__ if c is not object]

    def issub(self, cname, base):
        return base in self.mro(cname)

    def calculated_attributes(self, cname):
        c = self.classes[cname]
        if cname in self._calc_cache: return self._calc_cache[cname]
        try:
            o = c.__new__(c)
        except TypeError:
            sub = type("_Concrete" + cname, (c,), {m: (lambda *a, **k: None) for m in getattr(c, "__abstractmethods__", ())})
            o = object.__new__(sub)
        self._calc_cache[cname] = list(c.calculated_attributes.fget(o))
        return self._calc_cache[cname]

    def can_be_negative(self, cname):
        try: return list(self.classes[cname].attributes_that_can_have_negative_values())
        except Exception: return []

    def input_params(self, cname):
        c = self.classes[cname]
        out = {}
        for n, p in inspect.signature(c.__init__).parameters.items():
            if n in ("self", "name"): continue
            out[n] = p.annotation
        return out

    def input_dim(self, obj_or_cname, attr):
        cname = obj_or_cname.cls if isinstance(obj_or_cname, ModelObj) else obj_or_cname
        if isinstance(obj_or_cname, ModelObj) and getattr(obj_or_cname, "dims", None) and attr in obj_or_cname.dims:
            return obj_or_cname.dims[attr]
        for k in self.mro(cname):
            c = self.classes[k]
            try:
                dv = c.default_values()
            except Exception:
                dv = None
            if dv and attr in dv and hasattr(dv[attr].value, "dimensionality"):
                return self.units.dim_of(dv[attr].value)
        if isinstance(obj_or_cname, ModelObj) and getattr(obj_or_cname, "dims", None) and attr in obj_or_cname.dims:
            return obj_or_cname.dims[attr]
        if attr == "fixed_nb_of_instances": return DIMLESS
        raise Unsupported(f"no default dimension for {cname}.{attr}")

    def find_member(self, cname, name):
        """(defining class, ast node) of a method/property looked up through the real MRO"""
        for k in self.mro(cname):
            c = self.classes[k]
            if name in c.__dict__:
                mod = c.__module__
                path, src, tree = load_module(mod)
                cn = next((n for n in tree.body if isinstance(n, ast.ClassDef) and n.name == k), None)
                if cn is None: return None
                fn = next((n for n in cn.body if isinstance(n, ast.FunctionDef) and n.name == name), None)
                if fn is None: return None
                return k, mod, fn
        return None

    def schema_lookup(self, table, cname, attr):
        for k in self.mro(cname):
            if (k, attr) in table: return table[(k, attr)]
        return None

    # ------------------------------------------------------------------ object creation
    def new_obj(self, cname, name, index=None, family=None):
        o = ModelObj(cname, name, index=index, family=family or name)
        return o

    def sym_input(self, I, o: ModelObj, attr, dim, allow_empty=False):
        base = f"{o.family}.{attr}"
        if o.index is None:
            phys = z3.Real(base + ".phys"); fac = z3.Real(base + ".factor"); emp = z3.Bool(base + ".empty")
        else:
            phys = z3.Function(base + ".phys", I_, R)(o.index); fac = z3.Function(base + ".factor", I_, R)(o.index)
            emp = z3.Function(base + ".empty", I_, B)(o.index)
        I.eng.assume(fac > 0)
        if attr not in self.can_be_negative(o.cls):
            I.eng.assume(phys >= 0)       # validated input invariant (check_input_value_type_positivity_and_unit)
        e = Expl("eq", Qty(phys, Unit(dim, fac, base)), Label(True, base), attached=(o.key(attr)), fresh_obj=False,
                 source=Opaque("source", base))
        e.owner, e.attr = o, attr
        self.register(I, e)
        if allow_empty:
            return ExplU(emp, e)
        return e

    def sym_calc(self, I, o: ModelObj, attr, kinds, dim):
        base = f"{o.family}.{attr}"
        if callable(dim): dim = dim(self, o)
        idx = o.index
        def fn(suffix, sort):
            if idx is None: return z3.Const(base + suffix, sort)
            return z3.Function(base + suffix, I_, sort)(idx)
        if kinds in ("Q", "E|Q"):
            fac = fn(".factor", R); I.eng.assume(fac > 0)
            e = Expl("eq", Qty(fn(".phys", R), Unit(dim, fac, base)), Label(True, base), attached=o.key(attr), fresh_obj=False)
            e.owner, e.attr = o, attr
            self.register(I, e)
            return e if kinds == "Q" else ExplU(fn(".empty", B), e)
        if kinds in ("E|H", "H"):
            fac = fn(".factor", R); I.eng.assume(fac > 0)
            lit = self.schema_lookup(UNIT_INV, o.cls, attr)
            if lit is not None: fac = self.units.literal(lit).f
            if idx is None:
                vec = base_vec(base)
            else:
                fin = z3.Function(base + ".in", I_, I_, B); fv = z3.Function(base + ".val", I_, I_, R)
                vec = Vec(lambda t: fin(idx, t), lambda t: fv(idx, t), total=fn(".total", R), tmax=fn(".tmax", I_),
                          tmin=fn(".tmin", I_), n=fn(".len", I_))
                pf = z3.Function(base + ".prefix", I_, I_, R)
            e = Expl("ehq", DF(vec, Unit(dim, fac, base)), Label(True, base), attached=o.key(attr), fresh_obj=False)
            e.owner, e.attr = o, attr
            self.register(I, e)
            I.eng.assume(vec.n >= 1)       # an hourly attribute holds at least one hour (an empty result is an EmptyExplainableObject)
            if kinds == "H": return e
            return ExplU(fn(".empty", B), e)
        raise Unsupported(f"schema kind {kinds}")

    def register(self, I, e):
        """remember the physical content of every model value handed to the function under verification (frame check)"""
        snap = e.value.phys if e.kind == "eq" else e.value.vec
        I.eng.run.cache.setdefault("model_values", []).append((e, snap))

    # ------------------------------------------------------------------ hooks used by the interpreter
    def global_name(self, I, n):
        if n in self.classes: return IP.ClassRef(n)
        if n == "compute_nb_avg_hourly_occurrences":
            return ("repo_function", "efootprint.core.usage.compute_nb_occurrences_in_parallel.compute_nb_avg_hourly_occurrences")
        if n == "create_hourly_usage_df_from_list":
            return ("repo_function", "efootprint.builders.time_builders.create_hourly_usage_df_from_list")
        if n in ("ServerTypes",): return IP.ClassRef(n)
        if n == "Sources": return Opaque("Sources")
        return None

    def model_eq(self, I, a, b):
        """ModelingObject.__eq__ = equality of ids.  The object under verification (`self`) against the (i, j)-th element
        of a nested symbolic list: an uninterpreted predicate (the element may or may not be this very object)"""
        for x, y in ((a, b), (b, a)):
            if isinstance(x, ModelObj) and isinstance(y, ModelObj) and x.index is None and isinstance(y.index, tuple):
                return z3.Function(f"is[{x.name}]:{y.family}", I_, I_, B)(*y.index)
            if isinstance(x, ModelObj) and isinstance(y, ModelObj) and x.index is None and y.index is not None and not isinstance(y.index, tuple):
                return z3.Function(f"is[{x.name}]:{y.family}", I_, B)(y.index)
        return None
    def contains(self, I, container, x): return None
    def subscript(self, I, base, key):
        if isinstance(base, SList):
            if isinstance(key, PyNum) and z3.is_int_value(key.z) and key.z.as_long() == 0:
                I.lib_pre("index 0 of a non-empty list", base.n > 0)
                return base.elem(z3.IntVal(0))
        if isinstance(base, UPDict):
            return base.get(I, key)
        return None

    def store_subscript(self, I, base, key, v):
        if isinstance(base, UPDict):
            base.set(I, key, v); return True
        return False

    def member_formula(self, I, container: SList, x):
        """`x in container` for an element x of another symbolic list: an uninterpreted predicate of x's index, together with
        the position it has in `container` when it is a member (duplicate-free lists: ModelingObject.__eq__ is id equality)"""
        idx = x.index if isinstance(x.index, tuple) else (x.index,)
        ps = [I_] * len(idx)
        IN = z3.Function(f"in[{container.name}]:{x.family}", *ps, B)(*idx)
        POS = z3.Function(f"pos[{container.name}]:{x.family}", *ps, I_)(*idx)
        I.eng.assume(z3.Implies(IN, z3.And(POS >= 0, POS < container.n)))
        x.pos_in = getattr(x, "pos_in", {}); x.pos_in[container.name] = POS
        return IN

    def key_index(self, I, keys: SList, key):
        """index, in the key list of a KDict, of an object used as key"""
        if isinstance(key, ModelObj) and key.family == keys.name and not isinstance(key.index, tuple): return key.index
        if isinstance(key, ModelObj) and keys.name in getattr(key, "pos_in", {}): return key.pos_in[keys.name]
        raise Unsupported("dict key is not an element of the key list")

    def lib_binop(self, I, t, a, b): return None
    def call_builtin(self, I, name, args, kwargs): return NotImplemented
    def issubclass(self, a, b):
        return self.issub(a.name, b.name)

    def isinstance_model(self, x: ModelObj, cname):
        if cname in ("ModelingObject",): return True
        if cname not in self.classes: return False
        return self.issub(x.cls, cname)

    def call_bound(self, I, recv, name, args, kwargs):
        if isinstance(recv, IP.ClassRef) and recv.name == "ServerTypes":
            lab = {"autoscaling": "autoscaling", "on_premise": "on-premise", "serverless": "serverless"}.get(name)
            if lab: return server_type_const(lab)
        if isinstance(recv, UPDict):
            if name == "values": return recv.values(I)
        return NotImplemented

    def model_getattr(self, I, o: ModelObj, name):
        eng = I.eng
        if name == "name": return Label(True, o.name)
        if name == "id": return Opaque("id", o.name)
        if name == "class_as_simple_str": return o.cls
        # 1. schema: calculated attribute
        sc = self.schema_lookup(SCHEMA, o.cls, name)
        if sc is not None and (name in self.calculated_attributes(o.cls) or (name in ("base_ram_consumption", "base_compute_consumption") and o.cls == "Service")):
            kinds, dim = sc
            if kinds == "D":
                v = UPDict(self, o, name, dim)
            elif kinds == "O":
                v = Expl("eo", Opaque("calc-object", (o.family, name)), Label(True, name), attached=o.key(name), fresh_obj=False,
                         source=Opaque("source", name))
            else:
                v = self.sym_calc(I, o, name, kinds, dim)
            o.attrs[name] = v
            self.note_attr_read(I, o, name)
            inv = None
            for k in self.mro(o.cls):
                inv = inv or self.attr_invariants.get((k, name))
            if inv is not None and o.index is None: inv(I, o, v)
            return v
        # 2. input parameter
        params = {}
        for k in self.mro(o.cls):
            if k in ("ModelingObject", "ABC"): continue
            c = self.classes[k]
            if "__init__" in c.__dict__:
                for n, p in inspect.signature(c.__init__).parameters.items(): params.setdefault(n, p.annotation)
        if name in params and name not in ("self", "name") and self.schema_lookup(LINKS, o.cls, name) is None \
                and self.schema_lookup(LISTS, o.cls, name) is None:
            ann = params[name]
            annname = getattr(ann, "__name__", str(ann))
            if "ExplainableQuantity" in str(ann):
                dim = self.input_dim(o, name)
                v = self.sym_input(I, o, name, dim, allow_empty=("EmptyExplainableObject" in str(ann)))
                o.attrs[name] = v
                self.note_attr_read(I, o, name)
                return v
            if "ExplainableObject" in str(ann):
                payload = Opaque("input-object", (o.family, name))
                if name in ("server_type", "resolution") and getattr(o, "variant", None): payload = o.variant
                v = Expl("eo", payload, Label(True, name), attached=o.key(name), fresh_obj=False,
                         source=Opaque("source", name))
                o.attrs[name] = v
                return v
        # 3. links
        tgt = self.schema_lookup(LINKS, o.cls, name)
        if tgt is not None:
            v = self.new_obj(tgt, f"{o.name}.{name}", index=o.index, family=f"{o.family}.{name}")
            o.attrs[name] = v
            return v
        lst = self.schema_lookup(LISTS, o.cls, name) or None
        look = self.schema_lookup(LOOKUPS, o.cls, name)
        if lst is not None or look is not None:
            ecls, unordered = lst if lst is not None else (look, True)
            fam = f"{o.family}.{name}"
            if o.index is not None:
                if isinstance(o.index, tuple): raise Unsupported(f"list attribute {name} of a doubly indexed object")
                n = z3.Function(fam + ".len", I_, I_)(o.index)
                eng.assume(n >= 0)
                v = SList(n, None, fam, unordered=unordered)
                v.elem_dims = {}
                v.elem = lambda j, fam=fam, ecls=ecls, v=v, I=I, oi=o.index: self.elem2(fam, ecls, oi, j, I)
                o.attrs[name] = v
                return v
            n = z3.Int(fam + ".len")
            eng.assume(n >= 0)
            v = SList(n, None, fam, unordered=unordered)
            v.elem_dims = {}
            v.elem = lambda i, fam=fam, ecls=ecls, v=v, I=I: self.elem(fam, ecls, i, v.elem_dims, I, v)
            hook = self.list_hooks.get((self.defining(o.cls, name, LISTS, LOOKUPS), name))
            if hook: hook(I, o, v)
            o.attrs[name] = v
            return v
        # 4. member of the real class: property -> contract or inline
        m = self.find_member(o.cls, name)
        if m is None:
            raise SymRaise("AttributeError", f"{o.cls}.{name}")
        k, mod, fn = m
        is_prop = any(isinstance(d, ast.Name) and d.id == "property" for d in fn.decorator_list)
        if is_prop:
            return self.invoke(I, o, k, mod, fn, [], {})
        return IP.BoundMethod(o, name)

    def elem(self, fam, ecls, i, dims=None, I=None, lst=None):
        i = z3.simplify(i) if z3.is_expr(i) else z3.IntVal(i)
        key = ("elem", fam, i.get_id())
        if I is not None and key in I.eng.run.cache: return I.eng.run.cache[key][1]
        o = self.new_obj(ecls, f"{fam}[{i}]", index=i, family=fam)
        o.dims = dims or {}
        if I is not None: I.eng.run.cache[key] = (i, o)
        if lst is not None and getattr(lst, "elem_facts", None): lst.elem_facts(I, o)
        return o

    def elem2(self, fam, ecls, i, j, I):
        i = z3.simplify(i); j = z3.simplify(j) if z3.is_expr(j) else z3.IntVal(j)
        key = ("elem2", fam, i.get_id(), j.get_id())
        if key in I.eng.run.cache: return I.eng.run.cache[key][2]
        o = self.new_obj(ecls, f"{fam}[{i}][{j}]", index=(i, j), family=fam)
        o.dims = {}
        I.eng.run.cache[key] = (i, j, o)
        return o

    def defining(self, cname, attr, *tables):
        for k in self.mro(cname):
            for t in tables:
                if (k, attr) in t: return k
        return None

    def note_attr_read(self, I, o, name):
        I.eng.run.cache.setdefault("attr_reads", []).append((o.cls, o.family, name))

    def invoke(self, I, o, k, mod, fn, args, kwargs):
        spec = self.specs.get((k, fn.name))
        if spec is not None and not (I.fn_stack and I.fn_stack[-1] == f"{mod}.{k}.{fn.name}" and getattr(I, "phase", "") == "body" and I.inline_depth == 0 and False):
            return spec(I, o, *args, **kwargs)
        qual = f"{mod}.{k}.{fn.name}"
        if (k, fn.name) in self.no_inline:
            raise Unsupported(f"{qual} has no contract and is not inlinable")
        decos = [d.id if isinstance(d, ast.Name) else ast.unparse(d) for d in fn.decorator_list]
        if any(d not in ("staticmethod", "classmethod", "property") for d in decos):
            raise Unsupported(f"{qual} carries decorators {decos}: call convention not modelled")
        recv = [] if "staticmethod" in decos else ([IP.ClassRef(o.cls)] if "classmethod" in decos else [o])
        I.inline_depth += 1
        try:
            if I.inline_depth > 6: raise Unsupported("inline depth")
            return I.exec_function(fn, recv + list(args), kwargs, loop_specs=self.loop_specs.get(qual), qualname=qual)
        finally:
            I.inline_depth -= 1

    def model_call(self, I, o: ModelObj, name, args, kwargs):
        m = self.find_member(o.cls, name)
        if m is None: raise SymRaise("AttributeError", f"{o.cls}.{name}")
        k, mod, fn = m
        return self.invoke(I, o, k, mod, fn, args, kwargs)

    def model_setattr(self, I, o: ModelObj, name, v):
        """contract of ModelingObject.__setattr__ for a calculated attribute written by its update function"""
        if isinstance(v, ExplU): v = I.resolve(v)
        if isinstance(v, Expl):
            I.eng.oblige(f"attach/{name}: value attached to the model carries a label", v.label.nonempty, kind="post")
            if v.attached is not None and v.attached != o.key(name) and not v.fresh_obj:
                I.eng.oblige(f"attach/{name}: value is not already held elsewhere in the model", False, kind="post")
            v.attached = o.key(name)
        elif isinstance(v, (UPDict, KDict)):
            pass
        elif isinstance(v, (ModelObj, SList, list)):
            pass
        else:
            raise Unsupported(f"setattr of {type(v).__name__}")
        o.attrs[name] = v
        o.writes.append((name, v))

    def sum_slist(self, I, xs: SList, start):
        from .ghost import fold_sum
        return fold_sum(I, xs, start)


def server_type_const(lab):
    return Expl("eo", lab, Label(True, "server type"), fresh_obj=True, source=Opaque("source", "hypothesis"))


I_ = I  # alias (z3 Int sort) -- `I` is also used as the interpreter parameter name above


class UPDict:
    """ExplainableObjectDict keyed by the usage patterns of a job: entry for usage pattern #j of the family is the
    j-th element of a family of E|H values"""
    def __init__(self, world, owner, attr, dim):
        self.world, self.owner, self.attr, self.dim = world, owner, attr, dim
        self.written = {}      # str(index) -> value (entries written on this path)
        self.fresh = False

    def get(self, I, key):
        if not isinstance(key, ModelObj):
            raise Unsupported("dict key is not a usage pattern")
        o = self.owner
        if isinstance(key.index, tuple):
            k = str(tuple(str(z3.simplify(x)) for x in key.index))
            if k in self.written: return self.written[k]
            base = f"{o.family}.{self.attr}[{key.family}]"
            idx = key.index
            ps = [I_] * len(idx)
            fac = z3.Function(base + ".factor", *ps, R)(*idx); I.eng.assume(fac > 0)
            fin = z3.Function(base + ".in", *ps, I_, B); fv = z3.Function(base + ".val", *ps, I_, R)
            vec = Vec(lambda t: fin(*idx, t), lambda t: fv(*idx, t), total=z3.Function(base + ".total", *ps, R)(*idx),
                      n=z3.Function(base + ".len", *ps, I_)(*idx))
            e = Expl("ehq", DF(vec, Unit(self.dim, fac, base)), Label(True, base), attached=(o.key(self.attr) + (k,)), fresh_obj=False)
            v = ExplU(z3.Function(base + ".empty", *ps, B)(*idx), e)
            self.written[k] = v
            return v
        if key.index is None:
            k = key.name
            if k in self.written: return self.written[k]
            if self.fresh: raise SymRaise("KeyError", f"{self.attr}[{k}]")
            base = f"{o.family}.{self.attr}[{key.name}]"
            fac = z3.Real(base + ".factor"); I.eng.assume(fac > 0)
            vec = base_vec(base); I.eng.assume(vec.n >= 1)
            e = Expl("ehq", DF(vec, Unit(self.dim, fac, base)), Label(True, base), attached=(o.key(self.attr) + (k,)), fresh_obj=False)
            v = ExplU(z3.Bool(base + ".empty"), e)
            self.written[k] = v
            return v
        k = str(z3.simplify(key.index))
        if k in self.written: return self.written[k]
        if self.fresh: raise SymRaise("KeyError", f"{self.attr}[{k}]")
        base = f"{o.family}.{self.attr}[{key.family}]"
        idx = key.index
        fac = z3.Function(base + ".factor", I_, R)(idx); I.eng.assume(fac > 0)
        fin = z3.Function(base + ".in", I_, I_, B); fv = z3.Function(base + ".val", I_, I_, R)
        vec = Vec(lambda t: fin(idx, t), lambda t: fv(idx, t), total=z3.Function(base + ".total", I_, R)(idx),
                  tmax=z3.Function(base + ".tmax", I_, I_)(idx), tmin=z3.Function(base + ".tmin", I_, I_)(idx),
                  n=z3.Function(base + ".len", I_, I_)(idx))
        e = Expl("ehq", DF(vec, Unit(self.dim, fac, base)), Label(True, base), attached=(o.key(self.attr) + (k,)), fresh_obj=False)
        v = ExplU(z3.Function(base + ".empty", I_, B)(idx), e)
        self.written[k] = v
        return v

    def set(self, I, key, v):
        if not isinstance(key, ModelObj) or key.index is None:
            raise Unsupported("dict key is not a usage pattern of a symbolic list")
        if isinstance(v, ExplU): v = I.resolve(v)
        I.eng.oblige(f"attach/{self.attr}[..]: value attached to the model carries a label", v.label.nonempty, kind="post")
        self.written[str(z3.simplify(key.index))] = v
