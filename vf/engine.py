"""VC generator: forward symbolic execution of real `ast.FunctionDef`s over the abstract views (DESIGN.md 2.4).

Forking is by *replay*: a function body is re-executed once per decision vector; `decide(cond)` follows the vector and
schedules the alternative.  All verification conditions are quantifier free (ghost recursive functions are unfolded by
explicitly instantiated hypotheses), so a failed obligation comes back `sat` with a model.
"""
from __future__ import annotations
import ast, itertools, time
import z3
from .sym import *
from . import sym as S


class SymRaise(Exception):
    """the function under analysis raises `exc` (class name) on this path"""
    def __init__(self, exc, msg=""):
        self.exc, self.msg = exc, msg
        super().__init__(f"{exc}: {msg}")


class Unsupported(Exception):
    """construct outside the generator's subset -> obligation UNDECIDED(tool), never a violation"""


class Abort(Exception):
    """end this run (phase finished / path infeasible)"""


class ContinueEx(Exception):
    pass


class BreakEx(Exception):
    pass


class ReturnEx(Exception):
    def __init__(self, value): self.value = value


class Obligation:
    __slots__ = ("name", "hyps", "goal", "kind", "fn", "status", "time", "model", "path")

    def __init__(self, name, hyps, goal, kind, fn, path):
        self.name, self.hyps, self.goal, self.kind, self.fn, self.path = name, hyps, goal, kind, fn, path
        self.status, self.time, self.model = None, 0.0, None


class Run:
    def __init__(self, prefix):
        self.prefix, self.taken, self.alts = list(prefix), [], []
        self.pc = []
        self.defs = []      # definitional facts (ghost unfoldings, library facts): never dropped when a scope's pc is restored
        self.counter = itertools.count()
        self.cache = {}
        self.notes = []


TT = z3.Int("t!")   # the skolem time point of pointwise series obligations


class Engine:
    def __init__(self, world=None, rlimit=3_000_000):
        self.world = world
        self.run = None
        self.obligations = []
        self.fn = "?"
        self.rlimit = rlimit
        self.stats = {"runs": 0, "decides": 0, "feas_checks": 0, "paths": 0}
        self.path_log = []
        self._solver = z3.Solver()
        self.globals_hook = None
        self.max_runs = 4000

    # ------------------------------------------------------------------ exploration
    def explore(self, thunk, fn):
        """run `thunk(engine)` once per feasible decision vector"""
        self.fn = fn
        stack = [[]]
        n = 0
        while stack:
            prefix = stack.pop()
            n += 1
            if n > self.max_runs:
                raise Unsupported(f"{fn}: more than {self.max_runs} paths")
            self.run = Run(prefix)
            self.stats["runs"] += 1
            outcome = None
            try:
                thunk(self)
                outcome = "done"
            except Abort:
                outcome = "abort"
            for alt in self.run.alts:
                stack.append(alt)
            self.path_log.append((fn, list(self.run.taken), outcome))
        self.stats["paths"] += n
        return n

    def fresh(self, prefix, sort=R):
        return z3.Const(f"{prefix}!{next(self.run.counter)}", sort)

    def feasible(self, extra):
        self.stats["feas_checks"] += 1
        s = z3.Solver()
        s.set("rlimit", 2_000_000)
        s.set("timeout", 60_000)      # wall-clock backstop only (queries take milliseconds): some solver phases are not metered by rlimit
        fs = list(self.run.defs) + list(self.run.pc) + list(extra)
        for c in fs: s.add(c)
        for c in S.rounding_facts(fs): s.add(c)
        r = s.check()
        return r != z3.unsat   # unknown counts as feasible (sound: explores more)

    def assume(self, cond):
        self.run.pc.append(cond)

    def assume_def(self, cond):
        """a definitional fact: valid whatever the path (unfolding of a ghost function, library fact about a fresh symbol)"""
        self.run.defs.append(cond)

    def decide(self, cond):
        """branch on a z3 Bool; returns the python bool taken on this run"""
        if isinstance(cond, bool):
            return cond
        c = z3.simplify(cond)
        if z3.is_true(c): return True
        if z3.is_false(c): return False
        run = self.run
        k = len(run.taken)
        self.stats["decides"] += 1
        if k < len(run.prefix):
            choice = run.prefix[k]
        else:
            ft = self.feasible([c])
            ff = self.feasible([z3.Not(c)]) if ft else True
            if ft and ff:
                choice = True
                run.alts.append(run.taken + [False])
            elif ft: choice = True
            else: choice = False      # pc is feasible by construction, so the other branch is
        run.taken.append(choice)
        run.pc.append(c if choice else z3.Not(c))
        return choice

    def phase(self, k, label=""):
        """uninterpreted k-ary nondeterministic choice (loop phases)"""
        run = self.run
        i = len(run.taken)
        if i < len(run.prefix):
            choice = run.prefix[i]
        else:
            choice = 0
            for j in range(1, k):
                run.alts.append(run.taken + [j])
        run.taken.append(choice)
        return choice

    def oblige(self, name, goal, kind="post"):
        if isinstance(goal, bool):
            goal = z3.BoolVal(goal)
        self.obligations.append(Obligation(name, list(self.run.defs) + list(self.run.pc), goal, kind, self.fn, tuple(self.run.taken)))

    def undecided(self, name, reason):
        o = Obligation(name, [], z3.BoolVal(False), "tool", self.fn, tuple(self.run.taken if self.run else ()))
        o.status = "undecided-tool"; o.model = reason
        self.obligations.append(o)

    # ------------------------------------------------------------------ discharge
    def discharge(self, only_pending=True):
        for o in self.obligations:
            if o.status is not None and only_pending:
                continue
            solve(o, self.rlimit)
        return self.obligations


def solve(o, rlimit=3_000_000):
    s = z3.Solver()
    s.set("rlimit", rlimit)
    s.set("timeout", 120_000)         # wall-clock backstop (see feasible); unknown -> UNDECIDED, never a verdict
    for h in o.hyps: s.add(h)
    s.add(z3.Not(o.goal))
    for c in S.rounding_facts(list(o.hyps) + [o.goal]): s.add(c)
    t0 = time.time()
    r = s.check()
    o.time = time.time() - t0
    if r == z3.unsat:
        o.status = "proved"
    elif r == z3.sat:
        o.status = "refuted"
        try:
            m = s.model()
            o.model = {str(d): str(m[d]) for d in m.decls()[:60]}
        except Exception:
            o.model = {}
    else:
        o.status = "unknown"
        o.model = {"reason": s.reason_unknown()}
    return o
