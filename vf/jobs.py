"""Registry of P-tier verification jobs (one job = the contract of one function, all its cases) and their execution
in a process pool.  A job returns plain dicts so that results cross process boundaries."""
from __future__ import annotations
import os, sys, time, traceback

_STATE = {}


def _init():
    if "units" in _STATE: return _STATE
    from .units import Units
    from .world import World
    _STATE["units"] = Units()
    _STATE["world"] = World(_STATE["units"])
    return _STATE


def list_jobs():
    """[(job id, group)]"""
    _init()
    from .contracts import explainable_verify as XV, model as M
    jobs = []
    for kind in ("empty", "eq", "ehq"):
        defined = XV.class_methods(kind)
        for method in sorted(defined - XV.SKIP) + [m for m in XV.INHERITED[kind] if m not in defined]:
            jobs.append((f"explainable:{XV.CLS[kind]}.{method}", "explainable"))
    jobs.append(("avg", "model"))
    for key in M.UPDATE_SPECS:
        for cc in M.CONCRETE.get(key, [key[0]]):
            jobs.append(("update:" + "|".join(list(key) + [cc]) if len(key) == 3 else "update:" + "|".join([key[0], key[1], "", cc]), "model"))
    try:
        from .contracts import extra_jobs
        jobs += extra_jobs.list_jobs()
    except ImportError:
        pass
    return jobs


def run_job(job_id, rlimit=3_000_000):
    """-> dict(job, functions=[info], obligations=[...], wall_s, error)"""
    t0 = time.time()
    out = {"job": job_id, "functions": [], "obligations": [], "error": None, "stats": {}}
    try:
        st = _init()
        units, world = st["units"], st["world"]
        from .contracts import explainable_verify as XV, model as M, model_verify as MV
        results = []
        if job_id.startswith("explainable:"):
            cls_, meth_ = job_id.split(":", 1)[1].split(".")
            results = XV.verify_all(units, only=["." + meth_], engine_kw={"rlimit": rlimit})
            results = [r for r in results if r[0]["function"].endswith("." + cls_ + "." + meth_) or r[0]["function"].endswith(f".{meth_} [as inherited by {cls_}]")]
        elif job_id == "avg":
            results = [MV.verify_avg(world, units, engine_kw={"rlimit": rlimit})]
        elif job_id.startswith("update:"):
            cls, fn, variant, cc = job_id.split(":", 1)[1].split("|")
            key = (cls, fn, variant) if variant else (cls, fn)
            results = [MV.verify_update(world, units, M.UPDATE_SPECS[key], concrete_cls=cc, variant=variant or None,
                                        engine_kw={"rlimit": rlimit})]
        else:
            from .contracts import extra_jobs
            results = extra_jobs.run(job_id, st, rlimit)
        for info, eng in results:
            eng.discharge()
            out["functions"].append(info)
            for k, v in eng.stats.items(): out["stats"][k] = out["stats"].get(k, 0) + v
            for o in eng.obligations:
                out["obligations"].append({"name": o.name, "case": o.fn, "kind": o.kind, "status": o.status,
                                           "time": round(o.time, 4), "model": o.model, "function": info["function"],
                                           "nhyps": len(o.hyps)})
    except Exception as e:
        out["error"] = f"{type(e).__name__}: {e}\n{traceback.format_exc()[-1500:]}"
    out["wall_s"] = round(time.time() - t0, 3)
    return out


def run_jobs(job_ids, procs=None, rlimit=3_000_000):
    import multiprocessing as mp
    procs = procs or min(16, max(1, len(job_ids)))
    if procs == 1 or len(job_ids) == 1:
        return [run_job(j, rlimit) for j in job_ids]
    ctx = mp.get_context("fork")
    with ctx.Pool(procs) as pool:
        return pool.starmap(run_job, [(j, rlimit) for j in job_ids], chunksize=1)
