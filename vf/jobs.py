"""Registry of P-tier verification jobs (one job = the contract of one function, all its cases) and their execution
in a process pool.  A job returns plain dicts so that results cross process boundaries."""
from __future__ import annotations
import os, sys, time, traceback

_STATE = {}


def _init():
    if "units" in _STATE: return _STATE
    from .units import Units
    from .world import World
    _STATE["units"] = Units()
    _STATE["world"] = World(_STATE["units"])
    return _STATE


def list_jobs():
    """[(job id, group)]"""
    _init()
    from .contracts import explainable_verify as XV, model as M
    jobs = []
    for kind in ("empty", "eq", "ehq"):
        defined = XV.class_methods(kind)
        for method in sorted(defined - XV.SKIP) + [m for m in XV.INHERITED[kind] if m not in defined]:
            jobs.append((f"explainable:{XV.CLS[kind]}.{method}", "explainable"))
    jobs.append(("avg", "model"))
    for key in M.UPDATE_SPECS:
        for cc in M.CONCRETE.get(key, [key[0]]):
            jobs.append(("update:" + "|".join(list(key) + [cc]) if len(key) == 3 else "update:" + "|".join([key[0], key[1], "", cc]), "model"))
    try:
        from .contracts import extra_jobs
        jobs += extra_jobs.list_jobs()
    except ImportError:
        pass
    return jobs


def run_job(job_id, rlimit=3_000_000):
    """-> dict(job, functions=[info], obligations=[...], wall_s, error)"""
    t0 = time.time()
    out = {"job": job_id, "functions": [], "obligations": [], "error": None, "stats": {}}
    try:
        st = _init()
        units, world = st["units"], st["world"]
        from .contracts import explainable_verify as XV, model as M, model_verify as MV
        results = []
        if job_id.startswith("explainable:"):
            cls_, meth_ = job_id.split(":", 1)[1].split(".")
            results = XV.verify_all(units, only=["." + meth_], engine_kw={"rlimit": rlimit})
            results = [r for r in results if r[0]["function"].endswith("." + cls_ + "." + meth_) or r[0]["function"].endswith(f".{meth_} [as inherited by {cls_}]")]
        elif job_id == "avg":
            results = [MV.verify_avg(world, units, engine_kw={"rlimit": rlimit})]
        elif job_id.startswith("update:"):
            cls, fn, variant, cc = job_id.split(":", 1)[1].split("|")
            key = (cls, fn, variant) if variant else (cls, fn)
            results = [MV.verify_update(world, units, M.UPDATE_SPECS[key], concrete_cls=cc, variant=variant or None,
                                        engine_kw={"rlimit": rlimit})]
        else:
            from .contracts import extra_jobs
            results = extra_jobs.run(job_id, st, rlimit)
        for info, eng in results:
            eng.discharge()
            out["functions"].append(info)
            for k, v in eng.stats.items(): out["stats"][k] = out["stats"].get(k, 0) + v
            for o in eng.obligations:
                out["obligations"].append({"name": o.name, "case": o.fn, "kind": o.kind, "status": o.status,
                                           "time": round(o.time, 4), "model": o.model, "function": info["function"],
                                           "nhyps": len(o.hyps)})
    except Exception as e:
        out["error"] = f"{type(e).__name__}: {e}\n{traceback.format_exc()[-1500:]}"
    out["wall_s"] = round(time.time() - t0, 3)
    return out


JOB_TIMEOUT_S = int(os.environ.get("VF_JOB_TIMEOUT", "900"))


def _child(job_id, rlimit, conn):
    try:
        conn.send(run_job(job_id, rlimit))
    except BaseException as e:      # noqa
        conn.send({"job": job_id, "functions": [], "obligations": [], "error": f"{type(e).__name__}: {e}", "stats": {}, "wall_s": 0})
    finally:
        conn.close()


def run_jobs(job_ids, procs=None, rlimit=3_000_000, timeout=None):
    """one forked process per job (the parent holds the imported library, so a fork costs milliseconds), at most `procs` at a time,
    each under a wall-clock limit: the solver's resource limit is deterministic but a rare query has been seen to spin past it.
    A job that does not come back is killed and retried once; if it fails again its verdict is `timeout` (reported as UNDECIDED
    by vf.check, never as a violation, and never silently dropped)."""
    import multiprocessing as mp
    timeout = timeout or JOB_TIMEOUT_S
    procs = procs or min(16, max(1, len(job_ids)))
    if procs == 1 or len(job_ids) == 1:
        return [run_job(j, rlimit) for j in job_ids]
    _init()
    ctx = mp.get_context("fork")
    pending = [(j, 0) for j in job_ids]
    running, results = [], {}
    while pending or running:
        while pending and len(running) < procs:
            j, attempt = pending.pop(0)
            rx, tx = ctx.Pipe(duplex=False)
            pr = ctx.Process(target=_child, args=(j, rlimit, tx), daemon=True)
            pr.start(); tx.close()
            running.append([j, attempt, pr, rx, time.time()])
        still = []
        for item in running:
            j, attempt, pr, rx, t0 = item
            if rx.poll(0.005):
                try: results[j] = rx.recv()
                except EOFError: results[j] = {"job": j, "functions": [], "obligations": [], "error": "worker died without a result", "stats": {}, "wall_s": 0}
                pr.join(1); rx.close()
            elif not pr.is_alive():
                if rx.poll(0.2):
                    results[j] = rx.recv()
                else:
                    results[j] = {"job": j, "functions": [], "obligations": [], "error": f"worker exited with code {pr.exitcode}", "stats": {}, "wall_s": 0}
                rx.close()
            elif time.time() - t0 > timeout:
                pr.terminate(); pr.join(2)
                if pr.is_alive(): pr.kill()
                rx.close()
                if attempt == 0: pending.append((j, 1))
                else: results[j] = {"job": j, "functions": [], "obligations": [], "error": None, "timeout": timeout, "stats": {}, "wall_s": timeout}
            else:
                still.append(item)
        running = still
        if running and not pending: time.sleep(0.01)
    return [results[j] for j in job_ids]
