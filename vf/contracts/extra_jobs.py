"""Additional proof-tier jobs: C12 homogeneity lemmas over the functional specifications, and the effect (ordering)
profile of ModelingUpdate.__init__ (C14 / C05 / C01 clauses)."""
from __future__ import annotations
import ast, time
import z3
from ..sym import *
from ..engine import Engine, Obligation, SymRaise, Unsupported, Abort, TT, Run
from ..interp import Interp
from ..extract import extract
from ..ghost import MV
from . import model as M, model_verify as MV_

# (class, update function, variant, driver attribute path, exponent, concrete class)
LEMMAS = [
    ("ServerBase", "update_instances_energy", None, "self.power_usage_effectiveness", 1, "Server"),
    ("Storage", "update_instances_energy", None, "server.power_usage_effectiveness", 1, "Storage"),
    ("InfraHardware", "update_energy_footprint", None, "self.average_carbon_intensity", 1, "Server"),
    ("InfraHardware", "update_energy_footprint", None, "self.instances_energy", 1, "Server"),
    ("InfraHardware", "update_energy_footprint", None, "server.average_carbon_intensity", 1, "Storage"),
    ("InfraHardware", "update_instances_fabrication_footprint", None, "self.carbon_footprint_fabrication", 1, "Server"),
    ("InfraHardware", "update_instances_fabrication_footprint", None, "self.lifespan", -1, "Server"),
    ("InfraHardware", "update_instances_fabrication_footprint", None, "self.lifespan", -1, "Storage"),
    ("InfraHardware", "update_instances_fabrication_footprint", None, "self.nb_of_instances", 1, "Server"),
    ("UsagePattern", "update_devices_energy_footprint", None, "country.average_carbon_intensity", 1, "UsagePattern"),
    ("UsagePattern", "update_devices_energy_footprint", None, "self.devices_energy", 1, "UsagePattern"),
    ("UsagePattern", "update_devices_energy", None, "self.nb_usage_journeys_in_parallel", 1, "UsagePattern"),
    ("UsagePattern", "update_devices_fabrication_footprint", None, "self.nb_usage_journeys_in_parallel", 1, "UsagePattern"),
    ("ServerBase", "update_instances_energy", None, "self.nb_of_instances+raw", 1, "Server"),
    ("ServerBase", "update_nb_of_instances", "serverless", "self.raw_nb_of_instances", 1, "Server"),
    ("ServerBase", "update_raw_nb_of_instances", None, "self.needs", 1, "Server"),
]


def list_jobs():
    jobs = [(f"lemma:C12|{c}|{f}|{v or ''}|{d}|{e}|{cc}", "lemma") for c, f, v, d, e, cc in LEMMAS]
    jobs.append(("effects:ModelingUpdate.__init__", "effects"))
    jobs.append(("chain:optimize_attr_updates_chain", "chain"))
    return jobs


def _consts_for(I, g, driver):
    """z3 constants / functions to scale for a driver path"""
    subs = []
    def phys_of(gg, attr):
        v = gg.raw(attr)
        if isinstance(v, ExplU): v = v.nonempty
        return v
    if driver == "self.nb_of_instances+raw": attrs = [("self", "nb_of_instances"), ("self", "raw_nb_of_instances")]
    elif driver == "self.needs": attrs = [("self", "hour_by_hour_ram_need"), ("self", "hour_by_hour_compute_need")]
    else: attrs = [tuple(driver.split(".", 1))]
    out = []
    for owner, attr in attrs:
        if owner == "server":
            srv = I.model_getattr(g.o, "server")
            if srv is NONE: raise Abort()
            gg = M.G(I, srv)
        else:
            gg = g if owner == "self" else M.G(I, g.raw(owner))
        out.append(phys_of(gg, attr))
    return out


def lemma_job(job_id, st, rlimit):
    _, cls, fn, variant, driver, expo, cc = job_id.split("|")
    expo = int(expo)
    units, world = st["units"], st["world"]
    key = (cls, fn, variant) if variant else (cls, fn)
    spec = M.UPDATE_SPECS[key]
    eng = Engine(rlimit=rlimit)
    qual = f"lemma C12: {cls}.{fn}{'[' + variant + ']' if variant else ''} is homogeneous of degree {expo} in {driver} (self: {cc})"
    info = {"function": f"specification of {cls}.{fn}", "file": "vf/contracts/model.py", "lines": [0, 0], "sha256": "spec"}

    def thunk(eng_):
        I = Interp(eng_, units, specs=MV_.all_specs(world), world=world)
        world.list_hooks = {("ServerBase", "jobs"): M._jobs_hook, ("UsagePattern", "devices"): M._devices_hook}
        world.attr_invariants = M.ATTR_INV; world.loop_specs = M.LOOP_SPECS; world.specs = dict(M.WORLD_SPECS)
        try:
            o = world.new_obj(cc, "self"); o.variant = variant or None
            g = M.G(I, o)
            I.phase = "spec"
            try:
                w = spec.spec(I, g)
            except SymRaise:
                raise Abort()
            k = z3.Real("k!"); eng_.assume(k > 0)
            vals = _consts_for(I, g, driver)
            subs = []
            for v in vals:
                if v.kind == "eq": subs.append(("const", v.value.phys, k * v.value.phys))
                else:
                    vec = v.value.vec
                    if not hasattr(vec, "fv"): raise Unsupported("driver series is not a base series")
                    subs.append(("fn", vec.fv, k))
            def scaled(e):
                for s_ in subs:
                    if isinstance(s_[0], str) and s_[0] == "fn":
                        fv, kk = s_[1], s_[2]
                        # substitute the uninterpreted value function f(t) by k*f(t): rewrite every application
                        apps = _apps_of(e, fv)
                        e = z3.substitute(e, *[(a, kk * a) for a in apps]) if apps else e
                    else:
                        e = z3.substitute(e, (s_[1], s_[2]))
                return e
            factor = k if expo == 1 else 1 / k
            if isinstance(w, MV):
                val = w.vec.val(TT); idx = w.vec.inidx(TT); emp = w.is_empty
                eng_.oblige(f"{qual}/value scales", z3.Implies(z3.And(z3.Not(emp), idx), scaled(val) == factor * val), kind="lemma")
                eng_.oblige(f"{qual}/index unchanged", scaled(idx) == idx, kind="lemma")
                eng_.oblige(f"{qual}/emptiness unchanged", scaled(emp) == emp, kind="lemma")
            elif isinstance(w, tuple) and w[0] == "q":
                eng_.oblige(f"{qual}/value scales", scaled(w[1]) == factor * w[1], kind="lemma")
            else:
                raise Unsupported("spec result kind")
            eng_.obligations.append(Obligation(f"{qual}/cover", list(eng_.run.pc), z3.BoolVal(False), "cover", eng_.fn, tuple(eng_.run.taken)))
        except Unsupported as e:
            eng_.undecided(f"{qual}/unsupported", str(e))
    eng.explore(thunk, qual)
    return [(info, eng)]


def _apps_of(e, fdecl):
    out, seen, todo = [], set(), [e]
    while todo:
        x = todo.pop()
        if x.get_id() in seen: continue
        seen.add(x.get_id())
        if z3.is_app(x):
            if x.decl().eq(fdecl): out.append(x)
            todo.extend(x.children())
    return out


# ------------------------------------------------------------------------------------------------ effect profile
EFFECT = {  # call / assignment pattern -> effect class
    "parse_changes_list": "validate", "check_belonging_to_authorized_values": "validate",
    "compute_mod_objs_computation_chain": "plan", "compute_attr_updates_chain_from_mod_objs_computation_chain": "plan",
    "generate_optimized_attr_updates_chain": "plan",
    "make_simulation_specific_operations": "model-write", "apply_changes": "model-write", "recompute_attributes": "model-write",
    "link_simulated_and_baseline_twins": "twins", "reset_values": "restore",
}


def effect_rows(fdef):
    """linear effect summary of ModelingUpdate.__init__: [(line, effect, text, guarded_by_simulation)]"""
    rows = []
    def visit(stmts, guard):
        for s in stmts:
            if isinstance(s, ast.If):
                t = ast.unparse(s.test)
                g2 = guard or ("simulation_date" in t)
                visit(s.body, g2); visit(s.orelse, guard); continue
            if isinstance(s, ast.For):
                visit(s.body, guard); continue
            text = ast.unparse(s)
            eff = None
            for n in ast.walk(s):
                if isinstance(n, ast.Call) and isinstance(n.func, ast.Attribute) and n.func.attr in EFFECT:
                    eff = EFFECT[n.func.attr]
                if isinstance(n, ast.Call) and isinstance(n.func, ast.Name) and n.func.id in EFFECT:
                    eff = EFFECT[n.func.id]
            if eff is None and isinstance(s, (ast.Assign, ast.AugAssign)):
                tgt = ast.unparse(s.targets[0] if isinstance(s, ast.Assign) else s.target)
                if tgt.startswith("self.system.previous_") or tgt.startswith("self.system.all_changes"): eff = "bookkeeping"
                elif tgt.startswith("self.system."): eff = "system-field"
            if isinstance(s, ast.Raise): eff = "raise"
            if eff: rows.append((s.lineno, eff, text[:90], guard))
    visit(fdef.body, False)
    return rows


def effects_job(job_id, st, rlimit):
    q = "efootprint.abstract_modeling_classes.modeling_update.ModelingUpdate.__init__"
    ex = extract(q)
    eng = Engine(rlimit=rlimit); eng.fn = q; eng.run = Run([])
    rows = effect_rows(ex.node)
    idx = lambda eff, text=None: [i for i, r in enumerate(rows) if r[1] == eff and (text is None or text in r[2])]
    def ob(name, cond, kind="effect"): eng.oblige(f"{q}/{name}", bool(cond), kind=kind)
    writes = idx("model-write")
    ob("effect profile extracted (parse, bookkeeping, plan, apply, recompute found)", all(idx(e) for e in ("validate", "bookkeeping", "plan", "model-write")))
    if writes:
        first_write = min(writes)
        bk = idx("bookkeeping")
        ob("E-previous-before-write (C01): previous totals / change history are recorded before the first model write", bk and max(bk) < first_write)
        ob("E-previous-reads-current-totals (C01): previous_* are assigned from total_*_sum_over_period",
           all("total_" in rows[i][2] and "sum_over_period" in rows[i][2] for i in bk if "previous_total" in rows[i][2]))
        plan = idx("plan")
        ob("E-plan-before-apply (C01): the recomputation chains are derived before apply_changes", plan and max(plan) < min(idx("model-write", "apply_changes") or [10**9]))
        ap, rc = idx("model-write", "apply_changes"), idx("model-write", "recompute_attributes")
        ob("E-recompute-after-apply (C01): recompute_attributes follows apply_changes", ap and rc and max(ap) < min(rc))
        ob("E-parse-validation-first (C14): type / dimension / sign validation (parse_changes_list) precedes every model write", idx("validate", "parse_changes_list") and min(idx("validate", "parse_changes_list")) < first_write)
        val = idx("validate")
        ob("E-validate-first (C14): no model write precedes a validation step", val and max(val) < first_write)
        rs = idx("restore")
        ob("E-sim-restores-on-success (C05): with a simulation date the normal exit passes through reset_values after every model write", rs and max(rs) > max(writes) and all(rows[i][3] for i in rs))
        ob("E-sim-restores-on-exception (C05): every exit after a model write, including exceptional ones, restores the baseline (try/finally)",
           any(isinstance(n, ast.Try) for n in ast.walk(ex.node)))
    eng.obligations.append(Obligation(f"{q}/cover", [], z3.BoolVal(False), "cover", q, ()))
    info = ex.info(); info["effect_rows"] = [list(r) for r in rows]
    return [(info, eng)]


def run(job_id, st, rlimit):
    if job_id.startswith("lemma:C12"): return lemma_job(job_id.split(":", 1)[1], st, rlimit)
    if job_id.startswith("effects:"): return effects_job(job_id, st, rlimit)
    if job_id.startswith("chain:"): return chain_job(job_id, st, rlimit)
    raise KeyError(job_id)


# ------------------------------------------------------------------------------------------------ list profile (C08 / C01)
QN_OPT = "efootprint.abstract_modeling_classes.explainable_object_base_class.optimize_attr_updates_chain"


def chain_job(job_id, st, rlimit):
    """optimize_attr_updates_chain: keeps exactly the LAST occurrence of every id, in order.
    Loop invariant (predicate style) over the output list L at iteration i, last(j) := no later element has the id of j:
      L holds, in increasing order of position, exactly the positions j < i with last(j)."""
    from ..sym import QList, Havoc
    ex = extract(QN_OPT)
    eng = Engine(rlimit=rlimit)
    units, world = st["units"], st["world"]
    I_ = z3.IntSort()

    def thunk(eng_):
        I = Interp(eng_, units, specs=MV_.all_specs(world), world=world)
        try:
            n = z3.Int("chain.len"); eng_.assume(n >= 0)
            ID = z3.Function("chain.id", I_, I_)
            chain = QList(n, lambda p: p, lambda j: ID(j), "attr_updates_chain")
            k, p, q, j = z3.Ints("k p q j")
            last = lambda jj: z3.ForAll([k], z3.Implies(z3.And(jj < k, k < n), ID(k) != ID(jj)))
            def inv(L, i):
                if isinstance(L, list) and not L: Ln, Ls = z3.IntVal(0), (lambda x: x)
                elif isinstance(L, QList): Ln, Ls = L.n, L.src
                else: return [z3.BoolVal(False)]
                return [z3.And(Ln >= 0, Ln <= i),
                        z3.ForAll([p], z3.Implies(z3.And(0 <= p, p < Ln), z3.And(0 <= Ls(p), Ls(p) < i, last(Ls(p))))),
                        z3.ForAll([p, q], z3.Implies(z3.And(0 <= p, p < q, q < Ln), Ls(p) < Ls(q))),
                        z3.ForAll([j], z3.Implies(z3.And(0 <= j, j < i, last(j)), z3.Exists([p], z3.And(0 <= p, p < Ln, Ls(p) == j))))]
            cnt = [0]
            def mk():
                cnt[0] += 1
                s_ = z3.Function(f"out{cnt[0]}.src", I_, I_)
                return QList(z3.Int(f"out{cnt[0]}.len"), lambda x, s_=s_: s_(x), lambda jj: ID(jj), "optimized_chain")
            def loop0(ctx):
                def view(i): return {"optimized_chain": Havoc(mk, inv)}
                return view
            I.phase = "body"
            res = I.exec_function(ex.node, [chain], loop_specs={0: loop0}, qualname=QN_OPT)
            if not isinstance(res, QList):
                eng_.oblige(f"{QN_OPT}/returns the optimized list", False); return
            Ln, Ls = res.n, res.src
            eng_.oblige(f"{QN_OPT}/C08: no id is listed twice", z3.ForAll([p, q], z3.Implies(z3.And(0 <= p, p < q, q < Ln), ID(Ls(p)) != ID(Ls(q)))))
            # ghost lemma (assumed; finite well-ordering): every position j has a LAST position lastocc(j) >= j carrying the same id.
            # Instantiated by hand at a skolem position j0, together with invariant clause D at lastocc(j0).
            LO = z3.Function("lastocc", I_, I_)
            j0 = z3.Int("j0!")
            jl = LO(j0)
            saved = list(eng_.run.pc)
            eng_.assume(z3.And(0 <= j0, j0 < n))
            eng_.assume(z3.And(j0 <= jl, jl < n, ID(jl) == ID(j0), last(jl)))
            eng_.oblige(f"{QN_OPT}/lemma: invariant clause D instantiated at lastocc(j0)",
                        z3.Implies(z3.And(0 <= jl, jl < n, last(jl)), z3.Exists([p], z3.And(0 <= p, p < Ln, Ls(p) == jl))), kind="lemma")
            p0 = z3.Int("p0!")     # skolem witness of the lemma just proved
            eng_.assume(z3.Implies(z3.And(0 <= jl, jl < n, last(jl)), z3.And(0 <= p0, p0 < Ln, Ls(p0) == jl)))
            eng_.oblige(f"{QN_OPT}/C08: every id of the input is still listed", z3.Exists([p], z3.And(0 <= p, p < Ln, ID(Ls(p)) == ID(j0))))
            eng_.run.pc[:] = saved
            eng_.oblige(f"{QN_OPT}/C01: the occurrence kept for an id is its LAST one (so it is recomputed after everything merged before it)",
                        z3.ForAll([p, k], z3.Implies(z3.And(0 <= p, p < Ln, Ls(p) < k, k < n), ID(k) != ID(Ls(p)))))
            eng_.oblige(f"{QN_OPT}/order of the kept occurrences is the input order", z3.ForAll([p, q], z3.Implies(z3.And(0 <= p, p < q, q < Ln), Ls(p) < Ls(q))))
            eng_.oblige(f"{QN_OPT}/only elements of the input are returned", z3.ForAll([p], z3.Implies(z3.And(0 <= p, p < Ln), z3.And(0 <= Ls(p), Ls(p) < n))))
            eng_.obligations.append(Obligation(f"{QN_OPT}/cover", list(eng_.run.pc), z3.BoolVal(False), "cover", eng_.fn, tuple(eng_.run.taken)))
        except Unsupported as e:
            eng_.undecided(f"{QN_OPT}/unsupported", str(e))
    eng.explore(thunk, QN_OPT)
    return [(ex.info(), eng)]
