"""Additional proof-tier jobs: C12 homogeneity lemmas over the functional specifications, and the effect (ordering)
profile of ModelingUpdate.__init__ (C14 / C05 / C01 clauses)."""
from __future__ import annotations
import ast, time
import z3
from ..sym import *
from ..engine import Engine, Obligation, SymRaise, Unsupported, Abort, TT, Run
from ..interp import Interp
from ..extract import extract
from ..ghost import MV
from . import model as M, model_verify as MV_

# (class, update function, variant, driver attribute path, exponent, concrete class)
LEMMAS = [
    ("ServerBase", "update_instances_energy", None, "self.power_usage_effectiveness", 1, "Server"),
    ("Storage", "update_instances_energy", None, "server.power_usage_effectiveness", 1, "Storage"),
    ("InfraHardware", "update_energy_footprint", None, "self.average_carbon_intensity", 1, "Server"),
    ("InfraHardware", "update_energy_footprint", None, "self.instances_energy", 1, "Server"),
    ("InfraHardware", "update_energy_footprint", None, "server.average_carbon_intensity", 1, "Storage"),
    ("InfraHardware", "update_instances_fabrication_footprint", None, "self.carbon_footprint_fabrication", 1, "Server"),
    ("InfraHardware", "update_instances_fabrication_footprint", None, "self.lifespan", -1, "Server"),
    ("InfraHardware", "update_instances_fabrication_footprint", None, "self.lifespan", -1, "Storage"),
    ("InfraHardware", "update_instances_fabrication_footprint", None, "self.nb_of_instances", 1, "Server"),
    ("UsagePattern", "update_devices_energy_footprint", None, "country.average_carbon_intensity", 1, "UsagePattern"),
    ("UsagePattern", "update_devices_energy_footprint", None, "self.devices_energy", 1, "UsagePattern"),
    ("UsagePattern", "update_devices_energy", None, "self.nb_usage_journeys_in_parallel", 1, "UsagePattern"),
    ("UsagePattern", "update_devices_fabrication_footprint", None, "self.nb_usage_journeys_in_parallel", 1, "UsagePattern"),
    ("ServerBase", "update_instances_energy", None, "self.nb_of_instances+raw", 1, "Server"),
    ("ServerBase", "update_nb_of_instances", "serverless", "self.raw_nb_of_instances", 1, "Server"),
    ("ServerBase", "update_raw_nb_of_instances", None, "self.needs", 1, "Server"),
]


def list_jobs():
    jobs = [(f"lemma:C12|{c}|{f}|{v or ''}|{d}|{e}|{cc}", "lemma") for c, f, v, d, e, cc in LEMMAS]
    jobs.append(("effects:ModelingUpdate.__init__", "effects"))
    jobs.append(("chain:optimize_attr_updates_chain", "chain"))
    jobs += [(j, "timebuilder") for j in TIMEBUILDER_JOBS]
    jobs.append(("units:custom_units", "units"))
    from . import graph_jobs, lookup_jobs
    jobs += graph_jobs.list_jobs()
    jobs += lookup_jobs.list_jobs()
    from . import validator_jobs
    jobs += validator_jobs.list_jobs()
    return jobs


def _consts_for(I, g, driver):
    """z3 constants / functions to scale for a driver path"""
    subs = []
    def phys_of(gg, attr):
        v = gg.raw(attr)
        if isinstance(v, ExplU): v = v.nonempty
        return v
    if driver == "self.nb_of_instances+raw": attrs = [("self", "nb_of_instances"), ("self", "raw_nb_of_instances")]
    elif driver == "self.needs": attrs = [("self", "hour_by_hour_ram_need"), ("self", "hour_by_hour_compute_need")]
    else: attrs = [tuple(driver.split(".", 1))]
    out = []
    for owner, attr in attrs:
        if owner == "server":
            srv = I.model_getattr(g.o, "server")
            if srv is NONE: raise Abort()
            gg = M.G(I, srv)
        else:
            gg = g if owner == "self" else M.G(I, g.raw(owner))
        out.append(phys_of(gg, attr))
    return out


def lemma_job(job_id, st, rlimit):
    _, cls, fn, variant, driver, expo, cc = job_id.split("|")
    expo = int(expo)
    units, world = st["units"], st["world"]
    key = (cls, fn, variant) if variant else (cls, fn)
    spec = M.UPDATE_SPECS[key]
    eng = Engine(rlimit=rlimit)
    qual = f"lemma C12: {cls}.{fn}{'[' + variant + ']' if variant else ''} is homogeneous of degree {expo} in {driver} (self: {cc})"
    info = {"function": f"specification of {cls}.{fn}", "file": "vf/contracts/model.py", "lines": [0, 0], "sha256": "spec"}

    def thunk(eng_):
        I = Interp(eng_, units, specs=MV_.all_specs(world), world=world)
        world.list_hooks = {("ServerBase", "jobs"): M._jobs_hook, ("UsagePattern", "devices"): M._devices_hook}
        world.attr_invariants = M.ATTR_INV; world.loop_specs = M.LOOP_SPECS; world.specs = dict(M.WORLD_SPECS)
        try:
            o = world.new_obj(cc, "self"); o.variant = variant or None
            g = M.G(I, o)
            I.phase = "spec"
            try:
                w = spec.spec(I, g)
            except SymRaise:
                raise Abort()
            k = z3.Real("k!"); eng_.assume(k > 0)
            vals = _consts_for(I, g, driver)
            subs = []
            for v in vals:
                if v.kind == "eq": subs.append(("const", v.value.phys, k * v.value.phys))
                else:
                    vec = v.value.vec
                    if not hasattr(vec, "fv"): raise Unsupported("driver series is not a base series")
                    subs.append(("fn", vec.fv, k))
            def scaled(e):
                for s_ in subs:
                    if isinstance(s_[0], str) and s_[0] == "fn":
                        fv, kk = s_[1], s_[2]
                        # substitute the uninterpreted value function f(t) by k*f(t): rewrite every application
                        apps = _apps_of(e, fv)
                        e = z3.substitute(e, *[(a, kk * a) for a in apps]) if apps else e
                    else:
                        e = z3.substitute(e, (s_[1], s_[2]))
                return e
            factor = k if expo == 1 else 1 / k
            if isinstance(w, MV):
                val = w.vec.val(TT); idx = w.vec.inidx(TT); emp = w.is_empty
                eng_.oblige(f"{qual}/value scales", z3.Implies(z3.And(z3.Not(emp), idx), scaled(val) == factor * val), kind="lemma")
                eng_.oblige(f"{qual}/index unchanged", scaled(idx) == idx, kind="lemma")
                eng_.oblige(f"{qual}/emptiness unchanged", scaled(emp) == emp, kind="lemma")
            elif isinstance(w, tuple) and w[0] == "q":
                eng_.oblige(f"{qual}/value scales", scaled(w[1]) == factor * w[1], kind="lemma")
            else:
                raise Unsupported("spec result kind")
            eng_.obligations.append(Obligation(f"{qual}/cover", list(eng_.run.defs) + list(eng_.run.pc), z3.BoolVal(False), "cover", eng_.fn, tuple(eng_.run.taken)))
        except Unsupported as e:
            eng_.undecided(f"{qual}/unsupported", str(e))
    eng.explore(thunk, qual)
    return [(info, eng)]


def _apps_of(e, fdecl):
    out, seen, todo = [], set(), [e]
    while todo:
        x = todo.pop()
        if x.get_id() in seen: continue
        seen.add(x.get_id())
        if z3.is_app(x):
            if x.decl().eq(fdecl): out.append(x)
            todo.extend(x.children())
    return out


# ------------------------------------------------------------------------------------------------ effect profile
EFFECT = {  # call / assignment pattern -> effect class
    "parse_changes_list": "validate", "check_belonging_to_authorized_values": "validate",
    "compute_mod_objs_computation_chain": "plan", "compute_attr_updates_chain_from_mod_objs_computation_chain": "plan",
    "generate_optimized_attr_updates_chain": "plan",
    "make_simulation_specific_operations": "model-write", "apply_changes": "model-write", "recompute_attributes": "model-write",
    "link_simulated_and_baseline_twins": "twins", "reset_values": "restore",
}


def effect_rows(fdef):
    """linear effect summary of ModelingUpdate.__init__: [(line, effect, text, guarded_by_simulation)]"""
    rows = []
    def visit(stmts, guard):
        for s in stmts:
            if isinstance(s, ast.If):
                t = ast.unparse(s.test)
                g2 = guard or ("simulation_date" in t)
                visit(s.body, g2); visit(s.orelse, guard); continue
            if isinstance(s, ast.For):
                visit(s.body, guard); continue
            text = ast.unparse(s)
            eff = None
            for n in ast.walk(s):
                if isinstance(n, ast.Call) and isinstance(n.func, ast.Attribute) and n.func.attr in EFFECT:
                    eff = EFFECT[n.func.attr]
                if isinstance(n, ast.Call) and isinstance(n.func, ast.Name) and n.func.id in EFFECT:
                    eff = EFFECT[n.func.id]
            if eff is None and isinstance(s, (ast.Assign, ast.AugAssign)):
                tgt = ast.unparse(s.targets[0] if isinstance(s, ast.Assign) else s.target)
                if tgt.startswith("self.system.previous_") or tgt.startswith("self.system.all_changes"): eff = "bookkeeping"
                elif tgt.startswith("self.system."): eff = "system-field"
            if isinstance(s, ast.Raise): eff = "raise"
            if eff: rows.append((s.lineno, eff, text[:90], guard))
    visit(fdef.body, False)
    return rows


def effects_job(job_id, st, rlimit):
    q = "efootprint.abstract_modeling_classes.modeling_update.ModelingUpdate.__init__"
    ex = extract(q)
    eng = Engine(rlimit=rlimit); eng.fn = q; eng.run = Run([])
    rows = effect_rows(ex.node)
    idx = lambda eff, text=None: [i for i, r in enumerate(rows) if r[1] == eff and (text is None or text in r[2])]
    def ob(name, cond, kind="effect"): eng.oblige(f"{q}/{name}", bool(cond), kind=kind)
    writes = idx("model-write")
    ob("effect profile extracted (parse, bookkeeping, plan, apply, recompute found)", all(idx(e) for e in ("validate", "bookkeeping", "plan", "model-write")))
    if writes:
        first_write = min(writes)
        bk = idx("bookkeeping")
        ob("E-previous-before-write (C01): previous totals / change history are recorded before the first model write", bk and max(bk) < first_write)
        ob("E-previous-reads-current-totals (C01): previous_* are assigned from total_*_sum_over_period",
           all("total_" in rows[i][2] and "sum_over_period" in rows[i][2] for i in bk if "previous_total" in rows[i][2]))
        plan = idx("plan")
        ob("E-plan-before-apply (C01): the recomputation chains are derived before apply_changes", plan and max(plan) < min(idx("model-write", "apply_changes") or [10**9]))
        ap, rc = idx("model-write", "apply_changes"), idx("model-write", "recompute_attributes")
        ob("E-recompute-after-apply (C01): recompute_attributes follows apply_changes", ap and rc and max(ap) < min(rc))
        ob("E-parse-validation-first (C14): type / dimension / sign validation (parse_changes_list) precedes every model write", idx("validate", "parse_changes_list") and min(idx("validate", "parse_changes_list")) < first_write)
        val = idx("validate")
        ob("E-validate-first (C14): no model write precedes a validation step", val and max(val) < first_write)
        rs = idx("restore")
        ob("E-sim-restores-on-success (C05): with a simulation date the normal exit passes through reset_values after every model write", rs and max(rs) > max(writes) and all(rows[i][3] for i in rs))
        ob("E-sim-restores-on-exception (C05): every exit after a model write, including exceptional ones, restores the baseline (try/finally)",
           any(isinstance(n, ast.Try) for n in ast.walk(ex.node)))
    # ---- C06: the simulation date (statement-level facts read off the real AST)
    assigns = [n for n in ast.walk(ex.node) if isinstance(n, ast.Assign) and any(ast.unparse(t) == "self.simulation_date" for t in n.targets)]
    # recognised shapes are discharged; any other way of writing these statements is UNDECIDED(tool) (the bounded tier decides),
    # never a violation: a statement-level fact must not alarm on an equivalent rewrite
    if len(assigns) >= 1 and all(isinstance(a.value, ast.Name) and a.value.id == "simulation_date" for a in assigns):
        ob("E-date-kept (C06): self.simulation_date is the date given, unchanged (an aware datetime denotes an instant whatever its zone)", True)
    else:
        eng.undecided(f"{q}/E-date-kept (C06)", "self.simulation_date is not assigned the plain parameter: equivalence of the expression is outside the statement-level profile")
    naive = [n for n in ast.walk(ex.node) if isinstance(n, ast.If) and "tzinfo is None" in ast.unparse(n.test).replace("  ", " ")
             and any(isinstance(x, ast.Raise) and "ValueError" in ast.unparse(x) for x in n.body)]
    first_model_write_line = min([rows[i][0] for i in writes], default=10**9)
    if naive:
        ob("E-naive-date-refused (C06): a naive date raises ValueError, before the first model write", all(n.lineno < first_model_write_line for n in naive))
    else:
        eng.undecided(f"{q}/E-naive-date-refused (C06)", "no `tzinfo is None -> raise ValueError` statement recognised")
    eng.obligations.append(Obligation(f"{q}/cover", [], z3.BoolVal(False), "cover", q, ()))
    info = ex.info(); info["effect_rows"] = [list(r) for r in rows]
    return [(info, eng)]


def units_job(job_id, st, rlimit):
    """the unit system the operator contracts are stated over (C09 'combining incompatible dimensions raises'): ground facts about the
    REAL registry built from efootprint/constants/units.py + custom_units.txt, evaluated by pint itself.  The contracts take dimensions
    from this registry, so what is 'incompatible' has to be pinned independently: processor cores, GPUs and the physical base
    dimensions are pairwise independent."""
    units = st["units"]; u = units.u
    q = "efootprint.constants.custom_units"
    eng = Engine(rlimit=rlimit); eng.fn = q; eng.run = Run([])
    def ob(name, cond): eng.oblige(f"{q}/{name}", bool(cond), kind="units")
    base = {"cpu_core": u.cpu_core, "gpu": u.gpu, "kg": u.kg, "hour": u.hour, "W": u.W, "Wh": u.Wh, "dimensionless": u.dimensionless}
    names = list(base)
    for i, a in enumerate(names):
        for b in names[i + 1:]:
            ob(f"{a} and {b} are incompatible (no conversion between them)", not (1 * base[a]).is_compatible_with(1 * base[b]))
    for n in ("cpu_core", "gpu"):
        d = dict(base[n].dimensionality)
        ob(f"{n} is a base dimension of its own", d == {f"[{n}]": 1})
        try:
            (1 * base[n] + 1 * u.dimensionless); ob(f"{n} + a plain number raises", False)
        except Exception as ex:
            ob(f"{n} + a plain number raises", type(ex).__name__ == "DimensionalityError")
    try:
        (2 * u.cpu_core + 3 * u.gpu); ob("cpu_core + gpu raises", False)
    except Exception as ex:
        ob("cpu_core + gpu raises", type(ex).__name__ == "DimensionalityError")
    ob("year = 365.25 day", abs((1 * u.year).to(u.day).magnitude - 365.25) < 1e-12)
    ob("1 kWh = 1000 Wh = 3.6e6 J", abs((1 * u.kWh).to(u.Wh).magnitude - 1000) < 1e-9 and abs((1 * u.kWh).to(u.J).magnitude - 3.6e6) < 1e-3)
    ob("1 GB = 1000 MB = 1e6 kB (decimal prefixes on bytes)", abs((1 * u.GB).to(u.MB).magnitude - 1000) < 1e-9 and abs((1 * u.GB).to(u.kB).magnitude - 1e6) < 1e-6)
    eng.obligations.append(Obligation(f"{q}/cover", [], z3.BoolVal(False), "cover", q, ()))
    import hashlib, os
    from ..extract import REPO
    path = "efootprint/constants/custom_units.txt"
    src = open(os.path.join(REPO, path)).read()
    info = {"function": q, "file": path, "lines": [1, len(src.splitlines())], "sha256": hashlib.sha256(src.encode()).hexdigest()[:16]}
    return [(info, eng)]


def run(job_id, st, rlimit):
    if job_id.startswith("lemma:C12"): return lemma_job(job_id.split(":", 1)[1], st, rlimit)
    if job_id.startswith("effects:"): return effects_job(job_id, st, rlimit)
    if job_id.startswith("chain:"): return chain_job(job_id, st, rlimit)
    if job_id.startswith("timebuilder:"): return timebuilder_job(job_id, st, rlimit)
    if job_id.startswith("units:"): return units_job(job_id, st, rlimit)
    if job_id.startswith("validator:"):
        from . import validator_jobs
        return validator_jobs.run(job_id, st, rlimit)
    if job_id.startswith("lookup:"):
        from . import lookup_jobs
        return lookup_jobs.run(job_id, st, rlimit)
    if job_id.startswith("graph:"):
        from . import graph_jobs
        return graph_jobs.run(job_id, st, rlimit)
    raise KeyError(job_id)


# ------------------------------------------------------------------------------------------------ list profile (C08 / C01)
QN_OPT = "efootprint.abstract_modeling_classes.explainable_object_base_class.optimize_attr_updates_chain"


def chain_job(job_id, st, rlimit):
    """optimize_attr_updates_chain: keeps exactly the LAST occurrence of every id, in order.
    Loop invariant (predicate style) over the output list L at iteration i, last(j) := no later element has the id of j:
      L holds, in increasing order of position, exactly the positions j < i with last(j)."""
    from ..sym import QList, Havoc
    ex = extract(QN_OPT)
    eng = Engine(rlimit=rlimit)
    units, world = st["units"], st["world"]
    I_ = z3.IntSort()

    def thunk(eng_):
        I = Interp(eng_, units, specs=MV_.all_specs(world), world=world)
        try:
            n = z3.Int("chain.len"); eng_.assume(n >= 0)
            ID = z3.Function("chain.id", I_, I_)
            chain = QList(n, lambda p: p, lambda j: ID(j), "attr_updates_chain")
            k, p, q, j = z3.Ints("k p q j")
            last = lambda jj: z3.ForAll([k], z3.Implies(z3.And(jj < k, k < n), ID(k) != ID(jj)))
            def inv(L, i):
                if isinstance(L, list) and not L: Ln, Ls = z3.IntVal(0), (lambda x: x)
                elif isinstance(L, QList): Ln, Ls = L.n, L.src
                else: return [z3.BoolVal(False)]
                return [z3.And(Ln >= 0, Ln <= i),
                        z3.ForAll([p], z3.Implies(z3.And(0 <= p, p < Ln), z3.And(0 <= Ls(p), Ls(p) < i, last(Ls(p))))),
                        z3.ForAll([p, q], z3.Implies(z3.And(0 <= p, p < q, q < Ln), Ls(p) < Ls(q))),
                        z3.ForAll([j], z3.Implies(z3.And(0 <= j, j < i, last(j)), z3.Exists([p], z3.And(0 <= p, p < Ln, Ls(p) == j))))]
            cnt = [0]
            def mk():
                cnt[0] += 1
                s_ = z3.Function(f"out{cnt[0]}.src", I_, I_)
                return QList(z3.Int(f"out{cnt[0]}.len"), lambda x, s_=s_: s_(x), lambda jj: ID(jj), "optimized_chain")
            def loop0(ctx):
                def view(i): return {"optimized_chain": Havoc(mk, inv)}
                return view
            I.phase = "body"
            res = I.exec_function(ex.node, [chain], loop_specs={0: loop0}, qualname=QN_OPT)
            if not isinstance(res, QList):
                eng_.oblige(f"{QN_OPT}/returns the optimized list", False); return
            Ln, Ls = res.n, res.src
            eng_.oblige(f"{QN_OPT}/C08: no id is listed twice", z3.ForAll([p, q], z3.Implies(z3.And(0 <= p, p < q, q < Ln), ID(Ls(p)) != ID(Ls(q)))))
            # ghost lemma (assumed; finite well-ordering): every position j has a LAST position lastocc(j) >= j carrying the same id.
            # Instantiated by hand at a skolem position j0, together with invariant clause D at lastocc(j0).
            LO = z3.Function("lastocc", I_, I_)
            j0 = z3.Int("j0!")
            jl = LO(j0)
            saved = list(eng_.run.pc)
            eng_.assume(z3.And(0 <= j0, j0 < n))
            eng_.assume(z3.And(j0 <= jl, jl < n, ID(jl) == ID(j0), last(jl)))
            eng_.oblige(f"{QN_OPT}/lemma: invariant clause D instantiated at lastocc(j0)",
                        z3.Implies(z3.And(0 <= jl, jl < n, last(jl)), z3.Exists([p], z3.And(0 <= p, p < Ln, Ls(p) == jl))), kind="lemma")
            p0 = z3.Int("p0!")     # skolem witness of the lemma just proved
            eng_.assume(z3.Implies(z3.And(0 <= jl, jl < n, last(jl)), z3.And(0 <= p0, p0 < Ln, Ls(p0) == jl)))
            eng_.oblige(f"{QN_OPT}/C08: every id of the input is still listed", z3.Exists([p], z3.And(0 <= p, p < Ln, ID(Ls(p)) == ID(j0))))
            eng_.run.pc[:] = saved
            eng_.oblige(f"{QN_OPT}/C01: the occurrence kept for an id is its LAST one (so it is recomputed after everything merged before it)",
                        z3.ForAll([p, k], z3.Implies(z3.And(0 <= p, p < Ln, Ls(p) < k, k < n), ID(k) != ID(Ls(p)))))
            eng_.oblige(f"{QN_OPT}/order of the kept occurrences is the input order", z3.ForAll([p, q], z3.Implies(z3.And(0 <= p, p < q, q < Ln), Ls(p) < Ls(q))))
            eng_.oblige(f"{QN_OPT}/only elements of the input are returned", z3.ForAll([p], z3.Implies(z3.And(0 <= p, p < Ln), z3.And(0 <= Ls(p), Ls(p) < n))))
            eng_.obligations.append(Obligation(f"{QN_OPT}/cover", list(eng_.run.defs) + list(eng_.run.pc), z3.BoolVal(False), "cover", eng_.fn, tuple(eng_.run.taken)))
        except Unsupported as e:
            eng_.undecided(f"{QN_OPT}/unsupported", str(e))
    eng.explore(thunk, QN_OPT)
    return [(ex.info(), eng)]


# ------------------------------------------------------------------------------------------------ time builders (C20)
TB = "efootprint.builders.time_builders."


def _match(freq, ad_none, hr_none, AD, HR):
    cal = lambda f, tick: z3.Function("CAL." + f, z3.IntSort(), z3.IntSort())(tick)
    def m(tick):
        hr = (cal("hour", tick) == 0) if hr_none else HR(cal("hour", tick))
        if freq == "daily": return hr
        field = {"weekly": "day_of_week", "monthly": "day", "yearly": "day_of_year"}[freq]
        dflt = 0 if freq == "weekly" else 1
        ad = (cal(field, tick) == dflt) if ad_none else AD(cal(field, tick))
        return z3.And(ad, hr)
    return m


def timebuilder_job(job_id, st, rlimit):
    from ..sym import PArr, IntSet, Havoc
    from ..interp import TS
    units, world = st["units"], st["world"]
    which = job_id.split(":", 1)[1]
    eng = Engine(rlimit=rlimit)
    I_ = z3.IntSort()
    if which == "create_hourly_usage_df_from_list":
        ex = extract(TB + which)
        def thunk(eng_):
            I = Interp(eng_, units, specs=MV_.all_specs(world), world=world)
            try:
                n = z3.Int("list.len"); eng_.assume(n >= 0)
                at = z3.Function("list.at", I_, z3.RealSort())
                s0 = z3.Int("start.tick")
                unit = Unit(DIMLESS, z3.Real("unit.factor"), "pint_unit"); eng_.assume(unit.f > 0)
                lst = PArr(n, lambda p: at(z3.ToInt(p) if p.sort() != I_ else p))
                I.phase = "body"
                res = I.exec_function(ex.node, [lst, TS(s0), unit], qualname=TB + which)
                q = TB + which
                if not isinstance(res, DF): eng_.oblige(f"{q}/returns a DataFrame", False); return
                v = res.vec
                eng_.oblige(f"{q}/C20: one value per hour from the start date, contiguous: index = start + i h, 0 <= i < len(list)",
                            v.inidx(TT) == z3.And(TT >= s0, TT < s0 + HOUR * n, (TT - s0) % HOUR == 0))
                eng_.oblige(f"{q}/C20: the list is reproduced element for element, in the requested unit",
                            z3.Implies(v.inidx(TT), v.val(TT) == at((TT - s0) / HOUR) * unit.f))
                eng_.oblige(f"{q}/C20: requested unit", rv(res.unit.factor) == unit.f)
                eng_.obligations.append(Obligation(f"{q}/cover", list(eng_.run.defs) + list(eng_.run.pc), z3.BoolVal(False), "cover", eng_.fn, tuple(eng_.run.taken)))
            except Unsupported as e:
                eng_.undecided(f"{TB + which}/unsupported", str(e))
        eng.explore(thunk, TB + which)
        return [(ex.info(), eng)]
    # create_hourly_usage_from_frequency | freq | active_days none? | hours none?
    fn, freq, adn, hrn = which.split("|")
    ex = extract(TB + fn)
    q = TB + fn
    case = f"{q} [frequency={freq}, active_days={'None' if adn == '1' else 'given'}, hours={'None' if hrn == '1' else 'given'}]"
    def thunk(eng_):
        I = Interp(eng_, units, specs=MV_.all_specs(world), world=world)
        try:
            span = z3.Real("timespan.phys"); eng_.assume(span >= 0)
            tf = z3.Real("timespan.factor"); eng_.assume(tf > 0)
            vol = z3.Real("input_volume")
            s0 = z3.Int("start.tick")
            unit = Unit(DIMLESS, z3.Real("unit.factor"), "pint_unit"); eng_.assume(unit.f > 0)
            AD = z3.Function("active_days.has", I_, z3.BoolSort()); HR = z3.Function("hours.has", I_, z3.BoolSort())
            ad = NONE if adn == "1" else IntSet(lambda x: AD(x), "active_days")
            hr = NONE if hrn == "1" else IntSet(lambda x: HR(x), "hours")
            valid = freq in ("daily", "weekly", "monthly", "yearly") and not (freq == "daily" and adn == "0")
            N = z3.If(span >= 0, floor_i(span / 3600) + 1, z3.IntVal(0))
            match = _match(freq, adn == "1", hrn == "1", AD, HR) if valid else None
            cnt = [0]
            def mk():
                cnt[0] += 1
                f_ = z3.Function(f"values{cnt[0]}.at", I_, z3.RealSort())
                return PArr(N, lambda p, f_=f_: f_(z3.ToInt(p) if p.sort() != I_ else p))
            pp = z3.Int("p")
            def inv(arr, i):
                if not isinstance(arr, PArr): return [z3.BoolVal(False)]
                return [z3.ForAll([pp], z3.Implies(z3.And(0 <= pp, pp < N), arr.at(pp) == z3.If(z3.And(pp < i, match(s0 + HOUR * pp)), vol, z3.RealVal(0))))]
            def loop0(ctx):
                def view(i): return {"values": Havoc(mk, inv)}
                return view
            I.phase = "body"
            try:
                res = I.exec_function(ex.node, [Qty(span, Unit(W_TIME, tf)), PyNum(vol), freq, ad, hr, TS(s0), unit], loop_specs={0: loop0}, qualname=q)
                got = ("ret", res)
            except SymRaise as e:
                got = ("raise", e.exc)
            if not valid:
                eng_.oblige(f"{q}/C20: invalid arguments are refused with ValueError", got == ("raise", "ValueError")); return
            if got[0] != "ret":
                eng_.oblige(f"{q}/outcome: body raises {got[1]} on valid arguments", False); return
            if isinstance(res, ExplU): res = I.resolve(res)
            if not (isinstance(res, Expl) and res.kind == "ehq"):
                eng_.oblige(f"{q}/returns hourly values", False); return
            v = res.value.vec
            eng_.oblige(f"{q}/C20: one value per hour from the start date, contiguous, spanning the requested time span",
                        v.inidx(TT) == z3.And(TT >= s0, TT < s0 + HOUR * N, (TT - s0) % HOUR == 0))
            eng_.oblige(f"{q}/C20: the volume is carried at exactly the matching hours (right calendar field, right list), zero elsewhere",
                        z3.Implies(v.inidx(TT), v.val(TT) == z3.If(match(TT), vol, z3.RealVal(0)) * unit.f))
            eng_.oblige(f"{q}/C20: requested unit", rv(res.value.unit.factor) == unit.f)
            eng_.oblige(f"{q}/label", res.label.nonempty)
            eng_.obligations.append(Obligation(f"{q}/cover", list(eng_.run.defs) + list(eng_.run.pc), z3.BoolVal(False), "cover", eng_.fn, tuple(eng_.run.taken)))
        except Unsupported as e:
            eng_.undecided(f"{case}/unsupported", str(e))
    eng.explore(thunk, case)
    return [(ex.info(), eng)]


W_TIME = Dim({"[time]": 1})
TIMEBUILDER_JOBS = ["timebuilder:create_hourly_usage_df_from_list"] + [
    f"timebuilder:create_hourly_usage_from_frequency|{f}|{a}|{h}" for f in ("daily", "weekly", "monthly", "yearly", "hourly") for a in ("1", "0") for h in ("1", "0")]
