"""Verification harness: every operator / helper of the three explainable classes is executed symbolically from the
real source, for every operand kind (finite case split over class tags x {same, different} dimension, symbolic
values, symbolic units), and compared with its functional contract in `explainable.py`.  Loop free, full domain:
a complete proof per method (relative to libspec and A-REAL)."""
from __future__ import annotations
import z3
from ..sym import *
from ..engine import Engine, SymRaise, Unsupported, Abort, TT
from ..interp import Interp, KIND_CLASS
from ..extract import extract
from . import explainable as X

MOD = "efootprint.abstract_modeling_classes.explainable_objects"
CLS = {"empty": "EmptyExplainableObject", "eq": "ExplainableQuantity", "ehq": "ExplainableHourlyQuantities"}

D_A = Dim({"[mass]": 1})
D_B = Dim({"[time]": 1})


def mk_operand(kind, tag, dim, attached=None, anc=()):
    """symbolic operand named by `tag` (names are deterministic so that two calls build equal terms)"""
    if kind == "zero": return PyNum(z3.IntVal(0))
    if kind == "num": return PyNum(z3.Real(f"{tag}.num"))
    if kind == "str": return "some string"
    if kind == "none": return NONE
    unit = Unit(dim, z3.Real(f"{tag}.factor"), name=f"{tag}.unit")
    if kind == "empty":
        e = Expl("empty", None, Label(True, "no value"), attached=attached, anc=frozenset(anc), fresh_obj=False)
        e.value = e
        return e
    if kind == "eq":
        return Expl("eq", Qty(z3.Real(f"{tag}.phys"), unit), Label(True, tag), attached=attached, anc=frozenset(anc),
                    fresh_obj=False, source=Opaque("source", tag))
    if kind == "ehq":
        return Expl("ehq", DF(base_vec(tag), unit), Label(True, tag), attached=attached, anc=frozenset(anc),
                    fresh_obj=False, source=Opaque("source", tag))
    raise KeyError(kind)


OTHERS = [("zero", None), ("num", None), ("empty", None), ("eq", "same"), ("eq", "diff"), ("eq", "dimless"), ("ehq", "same"),
          ("ehq", "diff"), ("ehq", "dimless"), ("str", None)]

BINARY = ["__add__", "__radd__", "__sub__", "__rsub__", "__mul__", "__rmul__", "__truediv__", "__rtruediv__",
          "__eq__", "__lt__", "__gt__", "np_compared_with", "compare_with_and_return_max"]
UNARY = ["to", "ceil", "max", "abs", "sum", "mean", "copy", "__copy__", "__neg__", "__round__", "check",
         "return_shifted_hourly_quantities", "generate_explainable_object_with_logical_dependency", "__len__", "unit", "magnitude"]


def unit_facts(eng, *ops):
    for o in ops:
        if isinstance(o, Expl) and o.kind in ("eq", "ehq"):
            eng.assume(o.value.unit.f > 0)


def snapshot(o):
    if isinstance(o, Expl):
        if o.kind == "eq": return ("eq", o.value.phys)
        if o.kind == "ehq": return ("ehq", o.value.vec)
    return None


def phys_preserved(I, o, snap, name):
    if snap is None: return
    if snap[0] == "eq":
        I.eng.oblige(f"{name}/operand keeps its physical value", o.value.phys == snap[1], kind="frame")
    else:
        v0, v1 = snap[1], o.value.vec
        if v0 is v1: return
        I.eng.oblige(f"{name}/operand keeps its index", v1.inidx(TT) == v0.inidx(TT), kind="frame")
        I.eng.oblige(f"{name}/operand keeps its physical values", z3.Implies(v0.inidx(TT), v1.val(TT) == v0.val(TT)), kind="frame")


def equiv_full(I, got, want, twin, name):
    """result of the real body == result demanded by the contract (twin: contract-world object -> body-world object)"""
    eng = I.eng
    if isinstance(want, Expl) or isinstance(got, Expl):
        if not (isinstance(want, Expl) and isinstance(got, Expl)):
            eng.oblige(f"{name}/result kind", False); return
        if id(want) in twin:
            eng.oblige(f"{name}/returns the same object as specified", got is twin[id(want)])
            return
        if got.kind != want.kind:
            eng.oblige(f"{name}/result kind", False); return
        eng.oblige(f"{name}/result is a new object", not any(got is o for o in twin.values()))
        if want.kind in ("eq", "ehq"):
            I.equiv(got.value, want.value, f"{name}/value")
        for side in ("left", "right"):
            w, g = getattr(want, side), getattr(got, side)
            w = twin.get(id(w), w) if w is not None else None
            eng.oblige(f"{name}/{side}_parent recorded", g is w)
        wo, go = want.operator, got.operator
        if isinstance(wo, Label) or isinstance(go, Label):
            eng.oblige(f"{name}/operator recorded", (wo is not None) == (go is not None))
        else:
            eng.oblige(f"{name}/operator recorded", wo == go)
        eng.oblige(f"{name}/label emptiness", want.label.nonempty == got.label.nonempty)
        eng.oblige(f"{name}/recorded ancestors", (want.anc or frozenset()) == (got.anc or frozenset()))
        ws, gs = want.source, got.source
        eng.oblige(f"{name}/source", (ws is None) == (gs is None))
        return
    if isinstance(want, Opaque) and want.what == "unspecified-bool":
        eng.oblige(f"{name}/boolean result", isinstance(got, (bool, Opaque)) or (z3.is_expr(got) and got.sort() == B)); return
    if z3.is_expr(want) and want.sort() == B:
        if isinstance(got, bool): got = z3.BoolVal(got)
        eng.oblige(f"{name}/boolean result", got == want); return
    if isinstance(want, bool) or isinstance(got, bool):
        eng.oblige(f"{name}/boolean result", isinstance(got, bool) and isinstance(want, bool) and got == want); return
    I.equiv(got, want, name)


def run_case(I, fdef, qual, recv_kind, method, build):
    """one symbolic case: build() returns (args for the body, args for the contract, twin map)"""
    eng = I.eng
    body_args, spec_args, twin = build()
    unit_facts(eng, *body_args)
    snaps = [snapshot(a) for a in body_args]
    specf = X.SPECS.get((recv_kind, method))
    if specf is None:
        raise Unsupported(f"no contract for {qual}")
    I.phase = "spec"
    try:
        want = ("ret", specf(I, *spec_args))
    except SymRaise as e:
        want = ("raise", e.exc)
    I.phase = "body"
    try:
        got = ("ret", I.exec_function(fdef, body_args, qualname=qual))
    except SymRaise as e:
        got = ("raise", e.exc)
    if got[0] != want[0]:
        eng.oblige(f"{qual}/outcome: body {got[0]}s {got[1] if got[0]=='raise' else ''} but contract {want[0]}s "
                   f"{want[1] if want[0]=='raise' else ''}", False)
        return
    if got[0] == "raise":
        eng.oblige(f"{qual}/raises {want[1]}", got[1] == want[1])
        for a, s in zip(body_args, snaps): phys_preserved(I, a, s, qual)
        return
    equiv_full(I, got[1], want[1], twin, qual)
    for a, s in zip(body_args, snaps): phys_preserved(I, a, s, qual)
    # in-place effects on the operands: the unit each operand is expressed in afterwards is the one the contract says
    # (to() converts in place: a conversion that is skipped leaves the old unit tag, which later bare-magnitude reads depend on)
    for a, sa in zip(body_args, spec_args):
        if isinstance(a, Expl) and isinstance(sa, Expl) and a.kind in ("eq", "ehq") and sa.kind == a.kind:
            I.eng.oblige(f"{qual}/operand unit afterwards: dimension", a.value.unit.dim == sa.value.unit.dim, kind="frame")
            I.eng.oblige(f"{qual}/operand unit afterwards: conversion factor", rv(a.value.unit.factor) == rv(sa.value.unit.factor), kind="frame")


def class_methods(kind):
    from ..extract import class_node
    import ast
    node = class_node(MOD, CLS[kind])
    return {n.name for n in node.body if isinstance(n, ast.FunctionDef)}


SKIP = {"__init__", "__str__", "__repr__", "plot", "to_json", "__deepcopy__", "__hash__", "iloc",
        "value_as_float_list", "convert_to_utc", "round"}
# attributes the callers' contracts read as plain properties (re-evaluated at every read, never cached)
PROPERTIES = {("ehq", "unit"), ("eq", "magnitude"), ("empty", "magnitude")}


def cases_for(kind, method):
    """list of (case name, builder)"""
    out = []
    dim_self = D_A

    def mk_pair(okind, rel):
        def build():
            def one(world):
                s = mk_operand(kind, "a", dim_self, attached=("objA", "attrA"))
                odim = dim_self if rel == "same" else (D_B if rel == "diff" else DIMLESS)
                o = mk_operand(okind, "b", odim, attached=None, anc=[("objB", "attrB")])
                return s, o
            s1, o1 = one(0); s2, o2 = one(1)
            twin = {id(s2): s1}
            if isinstance(o2, Expl): twin[id(o2)] = o1
            if method in ("np_compared_with",):
                return [s1, o1, "max"], [s2, o2, "max"], twin
            return [s1, o1], [s2, o2], twin
        return build

    def mk_unary(extra_body, extra_spec):
        def build():
            s1 = mk_operand(kind, "a", dim_self, attached=("objA", "attrA"))
            s2 = mk_operand(kind, "a", dim_self, attached=("objA", "attrA"))
            eb, es = extra_body(), extra_spec()
            twin = {id(s2): s1}
            for x, y in zip(eb, es):
                if isinstance(y, Expl): twin[id(y)] = x
            return [s1] + eb, [s2] + es, twin
        return build

    if method in BINARY:
        for okind, rel in OTHERS:
            out.append((f"other={okind}{'/' + rel if rel else ''}", mk_pair(okind, rel)))
        if method == "np_compared_with":
            def bad():
                s1 = mk_operand(kind, "a", dim_self); s2 = mk_operand(kind, "a", dim_self)
                o1 = mk_operand("ehq", "b", dim_self); o2 = mk_operand("ehq", "b", dim_self)
                return [s1, o1, "mean"], [s2, o2, "mean"], {id(s2): s1, id(o2): o1}
            out.append(("comparator=other", bad))
            def mn():
                s1 = mk_operand(kind, "a", dim_self); s2 = mk_operand(kind, "a", dim_self)
                o1 = mk_operand("ehq", "b", dim_self); o2 = mk_operand("ehq", "b", dim_self)
                return [s1, o1, "min"], [s2, o2, "min"], {id(s2): s1, id(o2): o1}
            out.append(("comparator=min", mn))
    elif method == "to":
        lit = lambda nm, dim, f: (lambda: [Unit(dim, z3.RealVal(f), nm)])
        out.append(("unit of same dimension", mk_unary(lit("g", D_A, "1/1000"), lit("g", D_A, "1/1000"))))
        out.append(("unit of other dimension", mk_unary(lit("hour", D_B, 3600), lit("hour", D_B, 3600))))
        def ratio_case():
            # a dimension-less ratio unit such as GB/MB (factor 1000, or anything else) converted to plain `dimensionless`
            s1 = mk_operand(kind, "a", DIMLESS, attached=("objA", "attrA")); s2 = mk_operand(kind, "a", DIMLESS, attached=("objA", "attrA"))
            t1 = Unit(DIMLESS, z3.RealVal(1), "dimensionless"); t2 = Unit(DIMLESS, z3.RealVal(1), "dimensionless")
            return [s1, t1], [s2, t2], {id(s2): s1}
        out.append(("dimension-less ratio unit to plain dimensionless", ratio_case))
    elif method == "__round__":
        out.append(("4 decimals", mk_unary(lambda: [PyNum(z3.IntVal(4))], lambda: [PyNum(z3.IntVal(4))])))
    elif method == "set_label":
        out.append(("non-empty label", mk_unary(lambda: ["a label"], lambda: ["a label"])))
        out.append(("formatted label", mk_unary(lambda: [Label(True)], lambda: [Label(True)])))
    elif method == "check":
        out.append(("any", mk_unary(lambda: ["kg"], lambda: ["kg"])))
    elif method == "return_shifted_hourly_quantities":
        for dk, dd in (("eq", D_B), ("eq", D_A), ("empty", D_B)):
            mkd = (lambda dk=dk, dd=dd: [mk_operand(dk, "d", dd)])
            out.append((f"duration={dk}/{'time' if dd == D_B else 'mass'}", mk_unary(mkd, mkd)))
    elif method == "generate_explainable_object_with_logical_dependency":
        mkc = lambda: [mk_operand("eq", "c", D_B, attached=("objC", "cond"))]
        out.append(("condition attached", mk_unary(mkc, mkc)))
    elif method in UNARY:
        out.append(("-", mk_unary(lambda: [], lambda: [])))
    return out


BASE = "efootprint.abstract_modeling_classes.explainable_object_base_class.ExplainableObject"
INHERITED = {"eq": ["generate_explainable_object_with_logical_dependency", "set_label"],
             "ehq": ["generate_explainable_object_with_logical_dependency", "set_label", "__copy__"], "empty": ["set_label"]}


def verify_all(units, only=None, engine_kw=None):
    """returns (engine with obligations, list of function infos, undecided list)"""
    results = []
    for kind in ("empty", "eq", "ehq"):
        defined = class_methods(kind)
        todo = [(m, f"{MOD}.{CLS[kind]}.{m}") for m in sorted(defined - SKIP)] + [(m, f"{BASE}.{m}") for m in INHERITED[kind] if m not in defined]
        for method, qual in todo:
            if only and not any(o in qual for o in only): continue
            ex = extract(qual)
            eng = Engine(**(engine_kw or {}))
            info = ex.info()
            if qual.startswith(BASE): info["function"] = f"{qual} [as inherited by {CLS[kind]}]"
            cases = cases_for(kind, method)
            if not cases:
                eng.fn = qual
                eng.undecided(f"{qual}/no-harness", "method has no verification harness")
                results.append((info, eng)); continue
            want_deco = ["property"] if (kind, method) in PROPERTIES else []
            for cname, build in cases:
                fn = f"{qual} [{cname}]"
                def thunk(eng_, build=build, fn=fn, want_deco=want_deco):
                    I = Interp(eng_, units, specs=X.SPECS)
                    try:
                        # extraction drops decorators: the call convention the contracts rely on is an obligation of its own
                        # (a plain property is evaluated at every read; a cached one would keep a stale unit after an in-place conversion)
                        if ex.decorators == want_deco:
                            eng_.oblige(f"{qual}/call convention: decorators {ex.decorators} are {want_deco}", True, kind="post")
                        elif any("cache" in d for d in ex.decorators):
                            # memoised on an object whose value is converted IN PLACE by to(): the second read is stale (refutes the
                            # callers' contracts, which read the attribute afresh at every use)
                            eng_.oblige(f"{qual}/call convention: decorators {ex.decorators} are {want_deco}", False, kind="post")
                        else:
                            eng_.undecided(f"{qual}/call convention", f"decorators {ex.decorators} are not the ones the contracts were written for ({want_deco})")
                        run_case(I, ex.node, qual, kind, method, build)
                    except Unsupported as e:
                        eng_.undecided(f"{fn}/unsupported", str(e))
                eng.explore(thunk, fn)
            results.append((info, eng))
    return results
