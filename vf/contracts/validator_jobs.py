"""Proof-tier jobs on the input validator (C14): ModelingObject.check_input_value_type_positivity_and_unit is executed from its
real source for every (class, constructor parameter) of the library x every kind of value, with the quantity's magnitude symbolic,
and compared with the statement of C14:

    refused (an exception is raised)  <=>  the value is of the wrong type, or a quantity of the wrong dimension, or a negative
                                           quantity for a parameter that may not be negative, or a list holding an object of
                                           the wrong class;   "no value" (EmptyExplainableObject) is accepted for value parameters.

The annotations, default values (for the expected dimension) and the lists of parameters that may be negative are READ FROM THE
REAL CLASSES at run time (inspect.signature, default_values(), attributes_that_can_have_negative_values()); `typing.get_origin /
get_args`, `inspect.signature`, `isinstance` / `issubclass` on concrete classes are evaluated by Python itself on those concrete
objects (assumption A-PYOBJ: these standard-library functions are what they are).  A value is represented by an exemplar class
(SourceValue for a quantity, SourceObject for an object value, ...), a quantity additionally by a symbolic magnitude and a concrete
dimension."""
from __future__ import annotations
import ast, inspect, typing
import z3
from ..sym import *
from ..engine import Engine, Obligation, SymRaise, Unsupported, Abort, Run
from ..interp import Interp, BoundMethod, Builtin, ClassRef, SDict
from ..extract import extract

QUAL = "efootprint.abstract_modeling_classes.modeling_object.ModelingObject.check_input_value_type_positivity_and_unit"


class Py:
    """a concrete python object (class, typing alias, inspect.Signature ...) flowing through the symbolic execution"""
    def __init__(self, obj): self.obj = obj

    def vf_getattr(self, I, name): return wrap(getattr(self.obj, name))

    def vf_invoke(self, I, args, kwargs):
        return wrap(self.obj(*[unwrap(a) for a in args], **{k: unwrap(v) for k, v in kwargs.items()}))

    def vf_call(self, I, name, args, kwargs):
        return wrap(getattr(self.obj, name)(*[unwrap(a) for a in args], **{k: unwrap(v) for k, v in kwargs.items()}))

    def vf_compare(self, I, other):
        if isinstance(other, Builtin): return getattr(self.obj, "__name__", None) == other.name and self.obj in (list, dict, set, tuple, str, int, float)
        if isinstance(other, Py): return self.obj == other.obj
        return False

    def vf_truth(self, I): return bool(self.obj)
    def vf_subscript(self, I, key): return wrap(self.obj[unwrap(key)])
    def vf_contains(self, I, x): return unwrap(x) in self.obj


def wrap(v):
    if v is None: return NONE
    if isinstance(v, (str, bool)): return v
    if isinstance(v, int): return PyNum(z3.IntVal(v))
    return Py(v)


def unwrap(a):
    if isinstance(a, Py): return a.obj
    if a is NONE: return None
    if isinstance(a, (str, bool)): return a
    if isinstance(a, PyNum) and z3.is_int_value(a.z): return a.z.as_long()
    raise Unsupported(f"symbolic argument of a concrete python call: {type(a).__name__}")


class VObj:
    """`self` of the validator: only its class matters"""
    def __init__(self, cls): self.cls = cls
    def vf_getattr(self, I, name):
        if name == "__init__": return Py(self.cls.__init__)
        if name in ("attributes_that_can_have_negative_values", "default_values", "list_values", "conditional_list_values"): return BoundMethod(self, name)
        if name == "name": return Label(True)
        raise Unsupported(f"validator reads self.{name}")
    def vf_call(self, I, name, args, kwargs):
        if name == "attributes_that_can_have_negative_values": return list(self.cls.attributes_that_can_have_negative_values())
        raise Unsupported(f"validator calls self.{name}")


def list_jobs():
    from ..world import REPO
    import sys
    if REPO not in sys.path: sys.path.insert(0, REPO)
    from efootprint.core.all_classes_in_order import ALL_EFOOTPRINT_CLASSES
    return [(f"validator:{c.__name__}", "validator") for c in ALL_EFOOTPRINT_CLASSES]


def _kinds(st, ann, default, all_classes):
    """[(label, value builder(eng) -> sym value, exemplar class, facts)]"""
    from efootprint.abstract_modeling_classes.explainable_objects import ExplainableQuantity, ExplainableHourlyQuantities, EmptyExplainableObject
    from efootprint.abstract_modeling_classes.explainable_object_base_class import ExplainableObject
    from efootprint.abstract_modeling_classes.source_objects import SourceValue, SourceObject, SourceHourlyValues
    units = st["units"]
    out = []
    def tag(v, cls):
        v.vv_class = cls; return v
    ddim = None
    if default is not None and hasattr(getattr(default, "value", None), "dimensionality"):
        ddim = units.from_pint(default.value.units).dim
    def quantity(dim, name):
        def mk(eng):
            phys = z3.Real(f"{name}.phys"); f = z3.Real(f"{name}.factor"); eng.assume(f > 0)
            return tag(Expl("eq", Qty(phys, Unit(dim, f, name)), Label(True, name), fresh_obj=False), SourceValue)
        return mk
    other = Dim({"[mass]": 1}) if (ddim is None or ddim != Dim({"[mass]": 1})) else Dim({"[time]": 1})
    if ddim is not None:
        out.append(("quantity of the expected dimension", quantity(ddim, "v"), SourceValue, "same"))
    out.append(("quantity of another dimension", quantity(other, "w"), SourceValue, "other"))
    def empty(eng):
        e = Expl("empty", None, Label(True, "no value"), fresh_obj=False); e.value = e; return tag(e, EmptyExplainableObject)
    out.append(("no value (EmptyExplainableObject)", empty, EmptyExplainableObject, None))
    def hourly(eng):
        return tag(Expl("ehq", DF(base_vec("h"), Unit(DIMLESS, z3.Real("h.factor"), "h")), Label(True, "h"), fresh_obj=False), SourceHourlyValues)
    out.append(("hourly series", hourly, SourceHourlyValues, None))
    def objval(eng):
        return tag(Expl("eo", Opaque("input-object", "x"), Label(True, "x"), fresh_obj=False), SourceObject)
    out.append(("object value (SourceObject)", objval, SourceObject, None))
    out.append(("a float", lambda eng: tag(PyNumBox(z3.Real("num")), float), float, None))
    out.append(("a string", lambda eng: "3 kg", str, None))
    # modeling objects: the annotated class itself (if it is one), and another class
    mo = [c for c in all_classes]
    target = ann if inspect.isclass(ann) and ann in mo else None
    inner = typing.get_args(ann)[0] if typing.get_origin(ann) in (list, typing.List) else None
    def model(cls):
        def mk(eng):
            o = ModelObj(cls.__name__, f"a {cls.__name__}"); o.vv_class = cls; return o
        return mk
    wrong = next(c for c in mo if c is not target and c is not inner and not (target and issubclass(c, target)) and not (inner and issubclass(c, inner)))
    for cls in filter(None, [target, wrong]):
        out.append((f"a {cls.__name__} object", model(cls), cls, None))
    if inner is not None:
        sub = next((c for c in mo if issubclass(c, inner) and not inspect.isabstract(c)), inner)
        out.append((f"a list of {sub.__name__}", lambda eng, sub=sub: tag(PyList([model(sub)(eng), model(sub)(eng)]), list), list, ("list", True)))
        out.append((f"a list holding a {wrong.__name__}", lambda eng, sub=sub: tag(PyList([model(sub)(eng), model(wrong)(eng)]), list), list, ("list", False)))
        out.append(("an empty list", lambda eng: tag(PyList([]), list), list, ("list", True)))
    return out, ddim


class PyNumBox(PyNum):
    pass


class PyList(list):
    """a python list that can carry the exemplar-class tag"""
    pass


def run(job_id, st, rlimit):
    from ..world import REPO
    import sys
    if REPO not in sys.path: sys.path.insert(0, REPO)
    from efootprint.core.all_classes_in_order import ALL_EFOOTPRINT_CLASSES
    from efootprint.abstract_modeling_classes.explainable_objects import ExplainableQuantity, EmptyExplainableObject
    from efootprint.abstract_modeling_classes.explainable_object_base_class import ExplainableObject
    cname = job_id.split(":", 1)[1]
    cls = next(c for c in ALL_EFOOTPRINT_CLASSES if c.__name__ == cname)
    ex = extract(QUAL)
    eng = Engine(rlimit=rlimit)
    try: defaults = cls.default_values()
    except Exception: defaults = {}
    negatives = set(cls.attributes_that_can_have_negative_values())
    params = [(n, p.annotation) for n, p in inspect.signature(cls.__init__).parameters.items() if n not in ("self",)]
    units = st["units"]

    def py_isinstance(x, c):
        if isinstance(c, tuple): return any(py_isinstance(x, k) for k in c)
        ex_cls = getattr(x, "vv_class", None)
        if ex_cls is None:
            if isinstance(x, str): ex_cls = str
            elif isinstance(x, PyNum): ex_cls = float
            elif isinstance(x, list): ex_cls = list
            else: raise Unsupported(f"isinstance of an untagged {type(x).__name__}")
        try: return issubclass(ex_cls, c)
        except TypeError: raise Unsupported(f"isinstance against {c!r}")       # unions: python's own isinstance accepts them, handled below
    def py_isinstance_union(x, c):
        if isinstance(c, type(int | str)): return any(py_isinstance(x, k) for k in typing.get_args(c) if k is not type(None)) or (x is NONE and type(None) in typing.get_args(c))
        return py_isinstance(x, c)

    for pname, ann in params + [("not_a_parameter", inspect.Parameter.empty)]:
        default = defaults.get(pname)
        kinds, ddim = _kinds(st, ann, default, ALL_EFOOTPRINT_CLASSES)
        is_union = isinstance(ann, type(int | str))
        for label, mk, ex_cls, facts in kinds:
            fn = f"{QUAL} [{cname}.{pname}: {label}]"
            def thunk(eng_, pname=pname, ann=ann, default=default, label=label, mk=mk, ex_cls=ex_cls, facts=facts, ddim=ddim, is_union=is_union, fn=fn):
                I = Interp(eng_, units, specs={}, world=None)
                from . import explainable as X
                I.specs = dict(X.SPECS)
                I.hooks["py_isinstance"] = py_isinstance_union
                def py_iter(x):
                    """python's iteration protocol on the exemplar class of a tagged value"""
                    if isinstance(x, str): return list(x)
                    c_ = getattr(x, "vv_class", None)
                    if c_ is None or isinstance(x, list): return None
                    if not (hasattr(c_, "__iter__") or hasattr(c_, "__getitem__")): raise SymRaise("TypeError", f"'{c_.__name__}' object is not iterable")
                    raise Unsupported(f"iteration over a {c_.__name__}")
                I.hooks["py_iter"] = py_iter
                I.module_globals = {"signature": Py(inspect.signature), "get_origin": Py(typing.get_origin), "get_args": Py(typing.get_args),
                                    "List": Py(typing.List)}
                I.hooks["py_class"] = lambda n: {"ExplainableQuantity": ExplainableQuantity, "EmptyExplainableObject": EmptyExplainableObject,
                                                 "ExplainableObject": ExplainableObject}.get(n)
                try:
                    v = mk(eng_)
                    dv = SDict({})
                    if default is not None and hasattr(getattr(default, "value", None), "units"):
                        dq = Expl("eq", Qty(z3.Real("default.phys"), units.from_pint(default.value.units)), Label(True, "default"), fresh_obj=False)
                        dq.vv_class = type(default)
                        dv = SDict({pname: dq})
                    I.phase = "body"
                    try:
                        I.exec_function(ex.node, [VObj(cls), pname, v, dv], qualname=QUAL)
                        outcome = None
                    except SymRaise as e:
                        outcome = e.exc
                    # ---- expected verdict, from the statement of C14 and the real annotation
                    if ann is inspect.Parameter.empty and pname == "not_a_parameter":
                        invalid = z3.BoolVal(False)
                    else:
                        anns = [a for a in typing.get_args(ann) if a is not type(None)] if is_union else [ann]
                        def valid_for(a):
                            if typing.get_origin(a) in (list, typing.List):
                                return z3.BoolVal(isinstance(facts, tuple) and facts[0] == "list" and facts[1])
                            if not inspect.isclass(a): return z3.BoolVal(True)
                            # "no value" passes the validator for every parameter (for links and names the operation is then refused
                            # further down, before anything is written: confirmed by the bounded check, not part of this contract)
                            if ex_cls is EmptyExplainableObject: return z3.BoolVal(True)
                            try: type_ok = issubclass(ex_cls, a)
                            except TypeError: type_ok = False
                            if not type_ok: return z3.BoolVal(False)
                            if issubclass(a, ExplainableQuantity) and isinstance(v, Expl) and v.kind == "eq":
                                if ddim is None: return z3.BoolVal(True)
                                dim_ok = v.value.unit.dim == ddim
                                sign_ok = z3.BoolVal(True) if pname in negatives else v.value.phys >= 0
                                return z3.And(z3.BoolVal(dim_ok), sign_ok)
                            return z3.BoolVal(True)
                        invalid = z3.Not(z3.Or([valid_for(a) for a in anns]))
                    eng_.oblige(f"{fn}/C14: refused exactly when the value is invalid" + (" [union annotation]" if is_union else ""),
                                invalid == z3.BoolVal(outcome is not None))
                    eng_.obligations.append(Obligation(f"{fn}/cover", list(eng_.run.defs) + list(eng_.run.pc), z3.BoolVal(False), "cover", eng_.fn, tuple(eng_.run.taken)))
                except Unsupported as e:
                    eng_.undecided(f"{fn}/unsupported", str(e))
            eng.explore(thunk, fn)
    info = ex.info()
    info["function"] = f"{QUAL} [as used by {cname}]"
    return [(info, eng)]
