"""Proof-tier jobs on the derived look-ups of the modeling classes (C02 "every component exactly once", C19):
`System.servers / storages / networks / usage_journeys`, `Network.jobs`, `ServerBase.jobs / installed_services`, `Storage.jobs`,
`JobBase.usage_patterns / usage_journeys / networks`, `UsageJourney.jobs / servers / storages`, `UsageJourneyStep.usage_patterns /
networks`, `UsagePattern.jobs`.  The update rules' contracts ASSUME these look-ups (world.LOOKUPS: "the duplicate-free list of ...");
here each one is proved from its real source:

    view:        x is in the result  <=>  the defining formula over the forward links / reverse links holds for x
    exactly once: the result lists no object twice (where the contract says so)

Encoding: objects are integers (identities).  Forward links are uninterpreted functions (NET(up), SERVER(job), ...), real list
attributes and `modeling_obj_containers` are (length, element-at) pairs, and the look-ups of OTHER objects used inside a body are
taken by contract (an uninterpreted membership relation MEM_<Class>.<prop>(obj, x) plus its duplicate-freeness), never by body.
Collections are membership predicates (python closures x -> z3 Bool) with a duplicate-freeness flag (a z3 Bool): list / set / sum /
comprehension / | / += / update are definitions on them; iterating an unordered collection introduces an arbitrary enumeration.
`modeling_obj_containers` itself (the reverse index kept by the link layer) is assumed duplicate free and exact: its maintenance is
property C16, decided by the bounded tier."""
from __future__ import annotations
import ast
import z3
from ..sym import *
from ..engine import Engine, Obligation, SymRaise, Unsupported, Abort, Run
from ..interp import Interp, BoundMethod
from ..extract import extract, class_node

I_ = z3.IntSort(); B_ = z3.BoolSort()
_cnt = [0]


def fresh(name, sort=I_):
    _cnt[0] += 1
    return z3.Const(f"{name}!{_cnt[0]}", sort)


def T(x): return z3.BoolVal(x) if isinstance(x, bool) else x


class MColl:
    """a python collection of modeling objects: membership predicate + 'no object twice' flag (+ an enumeration when it has one)"""
    def __init__(self, member, dupfree, enum=None, name="coll", ecls=None):
        self.member, self.dupfree, self.enum, self.name, self.ecls = member, T(dupfree), enum, name, ecls      # enum: (n, at) or None

    # ---- iteration: an arbitrary enumeration consistent with membership (and injective when duplicate free)
    def vf_enumerate(self, I):
        if self.enum is None:
            k = fresh("enum")
            n = z3.Int(f"{k}.len"); at = z3.Function(f"{k}.at", I_, I_); idx = z3.Function(f"{k}.idx", I_, I_)
            p, q, x = z3.Ints("p!e q!e x!e")
            I.eng.assume_def(n >= 0)
            I.eng.assume_def(z3.ForAll([p], z3.Implies(z3.And(0 <= p, p < n), self.member(at(p)))))
            I.eng.assume_def(z3.ForAll([x], z3.Implies(self.member(x), z3.And(0 <= idx(x), idx(x) < n, at(idx(x)) == x))))
            I.eng.assume_def(z3.Implies(self.dupfree, z3.ForAll([p, q], z3.Implies(z3.And(0 <= p, p < q, q < n), at(p) != at(q)))))
            self.enum = (n, lambda pp, at=at: at(pp))
        n, at = self.enum
        sl = SList(n, lambda i, at=at: GObj(at(i), self.ecls), self.name, unordered=True)
        return sl

    def vf_truth(self, I):
        x = z3.Int("x!t")
        return I.eng.decide(z3.Exists([x], self.member(x)))

    # ---- comprehension [elt for X in self (for Y in inner)? if cond]
    def vf_comprehension(self, I, e, env):
        gens = e.generators
        if len(gens) > 2: raise Unsupported("comprehension with more than two generators")
        X = fresh("X")
        env2 = dict(env); I.assign(gens[0].target, GObj(X, self.ecls), env2)
        cond = z3.And([T(I.formula_of(c, env2)) for c in gens[0].ifs]) if gens[0].ifs else z3.BoolVal(True)
        src = lambda XX: z3.And(self.member(XX), z3.substitute(cond, (X, XX)))
        if len(gens) == 2:
            inner = I.eval(gens[1].iter, env2)
            if not isinstance(inner, MColl): raise Unsupported("inner generator is not a collection of objects")
            if gens[1].ifs: raise Unsupported("filter on the inner generator")
            if not (isinstance(e.elt, ast.Name) and isinstance(gens[1].target, ast.Name) and e.elt.id == gens[1].target.id):
                raise Unsupported("inner comprehension element")
            im = inner.member
            return MColl(lambda x: z3.Exists([X], z3.And(src(X), im(x))), False, name="flattened", ecls=inner.ecls)
        elt = I.eval(e.elt, env2)
        if isinstance(elt, GObj):
            ident = isinstance(e.elt, ast.Name) and isinstance(gens[0].target, ast.Name) and e.elt.id == gens[0].target.id
            if ident:
                return MColl(lambda x: src(x), self.dupfree, name=f"[{self.name} if ...]", ecls=self.ecls)
            t = elt.nid
            return MColl(lambda x: z3.Exists([X], z3.And(src(X), t == x)), False, name="mapped", ecls=elt.cls)
        if isinstance(elt, MColl):
            return MCollOfColl(src, X, elt)
        raise Unsupported(f"comprehension element {type(elt).__name__}")

    def vf_builtin(self, I, name, args, kwargs):
        if name in ("set", "frozenset") and len(args) == 1: return MColl(self.member, True, name=f"set({self.name})", ecls=self.ecls)
        if name == "list" and len(args) == 1: return MColl(self.member, self.dupfree, self.enum, name=self.name, ecls=self.ecls)
        if name == "len": raise Unsupported("len of an object collection")
        return NotImplemented

    def vf_getattr(self, I, name): return BoundMethod(self, name)

    def vf_call(self, I, name, args, kwargs):
        if name == "update" and len(args) == 1:
            o = as_coll(args[0]); old = self.member
            self.member = lambda x, old=old, o=o: z3.Or(old(x), o.member(x)); self.enum = None
            return NONE
        if name == "add" and len(args) == 1 and isinstance(args[0], GObj):
            t = args[0].nid; old = self.member
            self.member = lambda x, old=old, t=t: z3.Or(old(x), x == t); self.enum = None
            return NONE
        if name == "copy": return MColl(self.member, self.dupfree, self.enum, self.name)
        raise Unsupported(f"collection method {name}")

    def vf_binop(self, I, op, other):
        if isinstance(other, list) and not other: return MColl(self.member, self.dupfree, self.enum, self.name)
        o = as_coll(other)
        if o is None: return NotImplemented
        if op == "BitOr": return MColl(lambda x: z3.Or(self.member(x), o.member(x)), True, name="union", ecls=self.ecls or o.ecls)
        if op == "Add":
            x = z3.Int("x!d")
            disj = z3.ForAll([x], z3.Not(z3.And(self.member(x), o.member(x))))
            return MColl(lambda x_: z3.Or(self.member(x_), o.member(x_)), z3.And(self.dupfree, o.dupfree, disj), name="concatenation", ecls=self.ecls or o.ecls)
        return NotImplemented

    def vf_rbinop(self, I, op, other):
        if isinstance(other, list) and not other and op == "Add": return MColl(self.member, self.dupfree, self.enum, self.name)
        return NotImplemented

    def vf_equiv(self, I, got, name):
        got = as_coll(got)
        if got is None: I.eng.oblige(f"{name}/kind", False); return
        x = z3.Int("X!member")
        I.eng.oblige(f"{name}/membership", got.member(x) == self.member(x), kind="inv")


class MCollOfColl:
    """[inner(X) for X in outer]: a list of collections, only ever flattened by sum(..., start=[])"""
    def __init__(self, outer, X, inner): self.outer, self.X, self.inner = outer, X, inner
    def vf_builtin(self, I, name, args, kwargs):
        if name == "sum":
            start = args[1] if len(args) > 1 else kwargs.get("start")
            if not (isinstance(start, list) and not start): raise Unsupported("sum of lists without start=[]")
            X, inner, outer = self.X, self.inner, self.outer
            Y = fresh("Y"); x = z3.Int("x!d")
            inner_at = lambda XX, xx: z3.substitute(inner.member(xx), (X, XX))
            dup = z3.And(z3.ForAll([X], z3.Implies(outer(X), inner.dupfree)),
                         z3.ForAll([X, Y, x], z3.Implies(z3.And(outer(X), outer(Y), X != Y), z3.Not(z3.And(inner_at(X, x), inner_at(Y, x))))))
            return MColl(lambda xx: z3.Exists([X], z3.And(outer(X), inner.member(xx))), dup, name="flattened", ecls=inner.ecls)
        return NotImplemented


def as_coll(v):
    if isinstance(v, MColl): return v
    if isinstance(v, list):
        if all(isinstance(x, GObj) for x in v):
            ids = [x.nid for x in v]
            return MColl(lambda x, ids=ids: z3.Or([x == t for t in ids]) if ids else z3.BoolVal(False),
                         z3.And([a != b for k, a in enumerate(ids) for b in ids[k + 1:]]) if len(ids) > 1 else True, name="display")
    return None


# ---------------------------------------------------------------------------------------------------- the heap signature
LINKS = {"usage_journey": "UsageJourney", "network": "Network", "country": "Country", "server": "ServerBase", "storage": "Storage", "service": "Service"}
REAL_LISTS = {"uj_steps", "usage_patterns@System", "devices"}      # list attributes held by the object itself
CLS_OF_FILE = {
    "System": "efootprint.core.system.System", "Network": "efootprint.core.hardware.network.Network",
    "ServerBase": "efootprint.core.hardware.server_base.ServerBase", "Storage": "efootprint.core.hardware.storage.Storage",
    "InfraHardware": "efootprint.core.hardware.infra_hardware.InfraHardware",
    "JobBase": "efootprint.core.usage.job.JobBase", "UsageJourney": "efootprint.core.usage.usage_journey.UsageJourney",
    "UsageJourneyStep": "efootprint.core.usage.usage_journey_step.UsageJourneyStep", "UsagePattern": "efootprint.core.usage.usage_pattern.UsagePattern",
    "Service": "efootprint.builders.services.service_base_class.Service",
}


def F(name, *sorts): return z3.Function(name, *sorts)


def CONT(o, x):
    """x is a container of o (reverse index, exact and duplicate free by assumption A-C16)"""
    p = z3.Int("p!c")
    return z3.Exists([p], z3.And(0 <= p, p < F("CONT.len", I_, I_)(o), F("CONT.at", I_, I_, I_)(o, p) == x))


def containers(o, ecls=None):
    n = F("CONT.len", I_, I_)(o); at = F("CONT.at", I_, I_, I_)
    return MColl(lambda x: CONT(o, x), True, enum=(n, lambda p: at(o, p)), name="modeling_obj_containers", ecls=ecls)


def real_list(o, attr):
    n = F(f"LIST.{attr}.len", I_, I_)(o); at = F(f"LIST.{attr}.at", I_, I_, I_)
    p = z3.Int("p!l")
    return MColl(lambda x: z3.Exists([p], z3.And(0 <= p, p < n, at(o, p) == x)), False, enum=(n, lambda pp: at(o, pp)), name=attr, ecls=ELEM.get(attr))


def MEM(cls, prop, o, x): return SPECS[(cls, prop)][0](o, x)      # a look-up read inside a body: by its contract (defining relation)
def IS(cls, x): return F(f"IS.{cls}", I_, B_)(x)


# contracts of the look-ups: (class, property) -> (defining formula(o, x), duplicate free?, assumptions(o) -> [facts])
def _ex(body):
    v = fresh("E")
    return z3.Exists([v], body(v))


def spec_table():
    S = {}
    L = lambda name: F(f"LINK.{name}", I_, I_)
    lst = lambda o, attr, x: real_list(o, attr).member(x)
    D = lambda c, p: (lambda o, x: S[(c, p)][0](o, x))          # the defining relation of another look-up (no cycles)
    # usage journey / step / pattern
    S[("UsageJourney", "jobs")] = (lambda o, x: _ex(lambda X: z3.And(lst(o, "uj_steps", X), lst(X, "jobs", x))), False)
    S[("UsageJourney", "servers")] = (lambda o, x: _ex(lambda X: z3.And(D("UsageJourney", "jobs")(o, X), L("server")(X) == x)), True)
    S[("UsageJourney", "storages")] = (lambda o, x: _ex(lambda X: z3.And(D("UsageJourney", "jobs")(o, X), L("storage")(L("server")(X)) == x)), True)
    S[("UsageJourney", "usage_patterns")] = (lambda o, x: CONT(o, x), True)
    S[("UsagePattern", "jobs")] = (lambda o, x: D("UsageJourney", "jobs")(L("usage_journey")(o), x), False)
    S[("UsageJourneyStep", "usage_journeys")] = (lambda o, x: CONT(o, x), True)
    S[("UsageJourneyStep", "usage_patterns")] = (lambda o, x: _ex(lambda X: z3.And(CONT(o, X), D("UsageJourney", "usage_patterns")(X, x))), True)
    S[("UsageJourneyStep", "networks")] = (lambda o, x: _ex(lambda X: z3.And(D("UsageJourneyStep", "usage_patterns")(o, X), L("network")(X) == x)), True)
    # jobs
    S[("JobBase", "usage_journey_steps")] = (lambda o, x: CONT(o, x), True)
    S[("JobBase", "usage_journeys")] = (lambda o, x: _ex(lambda X: z3.And(CONT(o, X), D("UsageJourneyStep", "usage_journeys")(X, x))), True)
    S[("JobBase", "usage_patterns")] = (lambda o, x: _ex(lambda X: z3.And(CONT(o, X), D("UsageJourneyStep", "usage_patterns")(X, x))), True)
    S[("JobBase", "networks")] = (lambda o, x: _ex(lambda X: z3.And(D("JobBase", "usage_patterns")(o, X), L("network")(X) == x)), True)
    # hardware
    S[("Network", "usage_patterns")] = (lambda o, x: CONT(o, x), True)
    S[("Network", "jobs")] = (lambda o, x: _ex(lambda X: z3.And(CONT(o, X), D("UsagePattern", "jobs")(X, x))), True)
    S[("Service", "jobs")] = (lambda o, x: CONT(o, x), True)
    S[("ServerBase", "installed_services")] = (lambda o, x: z3.And(CONT(o, x), IS("Service", x)), True)
    S[("ServerBase", "jobs")] = (lambda o, x: z3.Or(z3.And(CONT(o, x), IS("JobBase", x)),
                                                    _ex(lambda X: z3.And(CONT(o, X), IS("Service", X), D("Service", "jobs")(X, x)))), True)
    S[("Storage", "jobs")] = (lambda o, x: _ex(lambda X: z3.And(CONT(o, X), D("ServerBase", "jobs")(X, x))), True)
    # system
    ups = lambda o, X_: lst(o, "usage_patterns", X_)
    S[("System", "usage_journeys")] = (lambda o, x: _ex(lambda X: z3.And(ups(o, X), L("usage_journey")(X) == x)), True)
    S[("System", "networks")] = (lambda o, x: _ex(lambda X: z3.And(ups(o, X), L("network")(X) == x)), True)
    S[("System", "servers")] = (lambda o, x: _ex(lambda X: z3.And(ups(o, X), D("UsageJourney", "servers")(L("usage_journey")(X), x))), True)
    S[("System", "storages")] = (lambda o, x: _ex(lambda X: z3.And(ups(o, X), D("UsageJourney", "storages")(L("usage_journey")(X), x))), True)
    return S


ELEM = {"jobs": "JobBase", "usage_patterns": "UsagePattern", "usage_journeys": "UsageJourney", "usage_journey_steps": "UsageJourneyStep",
        "uj_steps": "UsageJourneyStep", "servers": "ServerBase", "storages": "Storage", "networks": "Network", "installed_services": "Service",
        "devices": "Device"}
CONT_ELEM = {"Storage": "ServerBase", "Network": "UsagePattern", "UsageJourney": "UsagePattern", "UsageJourneyStep": "UsageJourney",
             "JobBase": "UsageJourneyStep", "Service": "JobBase", "UsagePattern": "System"}


SPECS = None
CLASS_OF_OBJ = {}      # lookups are resolved by the static class of the receiver expression; GObj carries it


def assumptions_for(cls, prop, o):
    """facts about the heap a contract may rely on (each is listed in the evidence)"""
    X, Y, x = z3.Int("X!a"), z3.Int("Y!a"), z3.Int("x!a")
    if (cls, prop) == ("ServerBase", "jobs"):
        # A-DISJOINT: a service job holds no server link of its own (its server is its service's), and belongs to one service
        return [z3.ForAll([X, x], z3.Implies(z3.And(CONT(o, X), IS("Service", X), MEM("Service", "jobs", X, x)), z3.Not(CONT(o, x)))),
                z3.ForAll([X, Y, x], z3.Implies(z3.And(CONT(o, X), CONT(o, Y), X != Y, MEM("Service", "jobs", X, x)), z3.Not(MEM("Service", "jobs", Y, x))))]
    return []


class GObj:
    """a modeling object seen through its identity; attribute reads resolve to links, own lists, reverse index or look-up contracts"""
    def __init__(self, nid, cls=None, verify=None):
        self.nid, self.cls, self.verify = nid, cls, verify       # verify: (cls, prop) currently executed from its real body

    def vf_getattr(self, I, name):
        if name == "modeling_obj_containers": return containers(self.nid, CONT_ELEM.get(self.cls))
        if name in LINKS: return GObj(F(f"LINK.{name}", I_, I_)(self.nid), LINKS[name])
        if name in ("uj_steps", "devices") or (name == "usage_patterns" and self.cls == "System") or (name == "jobs" and self.cls == "UsageJourneyStep"):
            return real_list(self.nid, name)
        if name in ("name", "id"): return Label(True)
        for c in MRO.get(self.cls, [self.cls]):
            if (c, name) in SPECS:
                member = lambda x, c=c, name=name: MEM(c, name, self.nid, x)
                return MColl(member, SPECS[(c, name)][1], name=f"{c}.{name}", ecls=ELEM.get(name))
        q = CLS_OF_FILE.get(self.cls)
        if q is not None:
            mod, cls = q.rsplit(".", 1)
            fn = next((n for n in class_node(mod, cls).body if isinstance(n, ast.FunctionDef) and n.name == name), None)
            if fn is not None and not any(isinstance(d, ast.Name) and d.id == "property" for d in fn.decorator_list):
                return BoundMethod(self, name)
        raise Unsupported(f"attribute {name} of an object of class {self.cls}")

    def vf_compare(self, I, other):
        if isinstance(other, GObj): return self.nid == other.nid
        return False

    def vf_isinstance(self, I, cname): return IS(cname, self.nid)

    def vf_call(self, I, name, args, kwargs):
        # static / helper methods of the class under verification: inlined from the real source with their loop contracts
        q = CLS_OF_FILE.get(self.cls)
        if q is None: raise Unsupported(f"method {name} of {self.cls}")
        mod, cls = q.rsplit(".", 1)
        fn = next((n for n in class_node(mod, cls).body if isinstance(n, ast.FunctionDef) and n.name == name), None)
        if fn is None: raise Unsupported(f"method {name} of {self.cls}")
        static = any(isinstance(d, ast.Name) and d.id == "staticmethod" for d in fn.decorator_list)
        return I.exec_function(fn, list(args) if static else [self] + list(args), kwargs, loop_specs=LOOPS.get((self.cls, name), {}), qualname=f"{q}.{name}")


class ClassTag:
    def __init__(self, name): self.vf_classname = name


MRO = {"Server": ["ServerBase", "InfraHardware"], "ServerBase": ["ServerBase", "InfraHardware"], "Storage": ["Storage", "InfraHardware"],
       "Job": ["JobBase"], "JobBase": ["JobBase"]}


# ---------------------------------------------------------------------------------------------------- loop contracts
def union_loop(var, inner_of):
    """accumulator `var` (a set) after i iterations = union of inner_of(element p) for p < i"""
    def spec(ctx):
        it = ctx.it
        def view(i):
            p = z3.Int("p!u")
            def member(x, i=i):
                return z3.Exists([p], z3.And(0 <= p, p < i, inner_of(it.elem(p).nid, x)))
            return {var: MColl(member, True, name=var)}
        view.commutative = True
        return view
    return spec


def LOOPS_table():
    L = lambda name: F(f"LINK.{name}", I_, I_)
    return {
        ("System", "servers_from_usage_patterns"): {0: union_loop("output_set", lambda e, x: MEM("UsageJourney", "servers", L("usage_journey")(e), x))},
        ("System", "storages_from_usage_patterns"): {0: union_loop("output_set", lambda e, x: MEM("UsageJourney", "storages", L("usage_journey")(e), x))},
        ("System", "networks_from_usage_patterns"): {0: union_loop("output_set", lambda e, x: L("network")(e) == x)},
        ("System", "usage_journeys"): {0: union_loop("output_set", lambda e, x: L("usage_journey")(e) == x)},
        ("UsageJourney", "servers"): {0: union_loop("servers", lambda e, x: L("server")(e) == x)},
        ("UsageJourney", "storages"): {0: union_loop("storages", lambda e, x: L("storage")(L("server")(e)) == x)},
        ("UsageJourney", "jobs"): {0: union_loop("output_list", lambda e, x: real_list(e, "jobs").member(x))},
    }


LOOPS = {}


def list_jobs():
    global SPECS
    SPECS = SPECS or spec_table()
    skip = {("UsageJourney", "usage_patterns"), ("UsageJourneyStep", "usage_journeys"), ("JobBase", "usage_journey_steps"),
            ("Network", "usage_patterns"), ("Service", "jobs")}      # plain aliases of modeling_obj_containers: included, trivially
    return [(f"lookup:{c}.{p}", "lookup") for (c, p) in SPECS]


def run(job_id, st, rlimit):
    global SPECS, LOOPS
    SPECS = SPECS or spec_table()
    LOOPS = LOOPS or LOOPS_table()
    cls, prop = job_id.split(":", 1)[1].split(".")
    _cnt[0] = 0          # fresh names must not depend on which jobs the worker process ran before (quantified goals are name sensitive)
    q = CLS_OF_FILE[cls]
    qual = f"{q}.{prop}"
    ex = extract(qual)
    eng = Engine(rlimit=rlimit)
    spec_member, spec_dupfree = SPECS[(cls, prop)]

    def thunk(eng_):
        I = Interp(eng_, st["units"], specs={}, world=None)
        I.hooks["set"] = lambda I_: MColl(lambda x: z3.BoolVal(False), True, name="set()")
        I.hooks["set_display"] = lambda I_, elts: as_coll(elts) if as_coll(elts) is not None else (_ for _ in ()).throw(Unsupported("set display of non-objects"))
        I.module_globals = {"JobBase": ClassTag("JobBase"), "Service": ClassTag("Service"), "List": NONE, "Type": NONE}
        try:
            me = z3.Int("self")
            o = GObj(me, cls)
            for f_ in assumptions_for(cls, prop, me): eng_.assume(f_)
            I.phase = "body"
            # the property under verification is executed from its real body; every OTHER look-up it reads is taken by contract
            res = I.exec_function(ex.node, [o], loop_specs=LOOPS.get((cls, prop), {}), qualname=qual)
            got = as_coll(res)
            if got is None:
                eng_.oblige(f"{qual}/returns a collection of modeling objects", False); return
            x = z3.Int("X!member")
            eng_.oblige(f"{qual}/view: an object is listed exactly when the defining relation holds", got.member(x) == spec_member(me, x))
            if spec_dupfree:
                eng_.oblige(f"{qual}/exactly once: no object is listed twice", got.dupfree)
            eng_.obligations.append(Obligation(f"{qual}/cover", list(eng_.run.defs) + list(eng_.run.pc), z3.BoolVal(False), "cover", eng_.fn, tuple(eng_.run.taken)))
        except Unsupported as e:
            eng_.undecided(f"{qual}/unsupported", str(e))
    eng.explore(thunk, qual)
    info = ex.info()
    info["assumed"] = [str(a)[:200] for a in assumptions_for(cls, prop, z3.Int("self"))]
    return [(info, eng)]
