"""Contracts of the numeric update functions of efootprint/core/** (functional specification of DESIGN.md section 3).

Every spec is written at math level (MV algebra over phys values): what the property statements demand of the
calculated attribute, pointwise at every hour, plus totals where a conservation law is claimed (C03).
`verify_update` executes the real update function symbolically and proves: result == spec, frame (writes exactly its
attribute), schema invariant of the attribute (kind, dimension), label on attach (C07), library preconditions (same
index for positional operations, non-zero divisors) and callee preconditions at every call site.
"""
from __future__ import annotations
import ast
import z3
from ..sym import *
from ..engine import Engine, SymRaise, Unsupported, Abort, TT
from ..interp import Interp, SDict
from ..extract import extract
from ..ghost import *
from .. import world as W
from . import explainable as X

HOUR_S = 3600
REPO_SPECS = {}      # qualified name -> functional contract used at call sites
UPDATE_SPECS = {}    # (class, function) -> Spec
PRE = {}


class G:
    """accessor used by specs: reads symbolic attributes of a model object at math level"""
    def __init__(self, I, o):
        self.I, self.o, self.w = I, o, I.world

    def raw(self, attr):
        return self.I.model_getattr(self.o, attr)

    def q(self, attr):
        """phys of a quantity-valued attribute (precondition: it is a quantity, not Empty)"""
        v = self.raw(attr)
        if isinstance(v, ExplU):
            self.I.require(f"{attr} is set (not Empty)", z3.Not(v.is_empty)); v = v.nonempty
        if not (isinstance(v, Expl) and v.kind == "eq"): raise Unsupported(f"{attr} is not a quantity")
        return v.value.phys

    def mv(self, attr) -> MV:
        return mv_of(self.raw(attr))

    def obj(self, attr):
        return G(self.I, self.raw(attr))

    def lst(self, attr) -> SList:
        return self.raw(attr)


class Spec:
    def __init__(self, cls, fn, attr=None, spec=None, pre=None, loops=None, raises=None, kind="E|H", writes=None, post=None):
        self.cls, self.fn, self.attr = cls, fn, attr if attr is not None else (fn[len("update_"):] if fn.startswith("update_") else None)
        self.spec, self.pre, self.loops, self.raises, self.kind, self.post = spec, pre, loops or {}, raises, kind, post
        self.writes = writes


def update(cls, fn, **kw):
    def deco(f):
        UPDATE_SPECS[(cls, fn)] = Spec(cls, fn, spec=f, **kw)
        return f
    return deco


def positive_inputs(I, g, *attrs):
    """validated input invariants (check_input_value_type_positivity_and_unit: quantities are >= 0)"""
    for a in attrs:
        I.eng.assume(g.q(a) >= 0)


# =====================================================================================================================
# compute_nb_avg_hourly_occurrences  (C03: occurrence-hours = occurrences x duration; nothing lost at the edges)
# =====================================================================================================================
QN_AVG = "efootprint.core.usage.compute_nb_occurrences_in_parallel.compute_nb_avg_hourly_occurrences"


def avg_fold(I, src: MV, tag):
    return FoldMV(I, f"avgfold[{tag}]", lambda k: mv_shift(MV(False, src.vec, src.dim), k), src.dim)


def spec_avg(I, starts, duration, tag=None):
    """functional contract: avg(h, d)(t) = sum_{k<floor(D)} h(t-k) + (D-floor(D)) h(t-floor(D)),  D = d in hours;
    total = D * total(h); Empty iff h is Empty or d == 0"""
    if isinstance(starts, ExplU): starts = I.resolve(starts)
    if isinstance(duration, ExplU): duration = I.resolve(duration)
    if duration.kind == "empty": dphys = z3.RealVal(0)
    else:
        I.note_read(duration)
        dphys = duration.value.phys
    if starts.kind == "empty" or I.eng.decide(dphys == 0):
        return X.new_expl(I, "empty", None, "no value", left=starts, right=duration)
    if duration.value.unit.dim != W.TIME: raise SymRaise("DimensionalityError", "event duration")
    I.require("event duration is not negative", dphys >= 0)
    I.note_read(starts)
    src = starts.value
    D = dphys / HOUR_S
    n = floor_i(D); r = D - z3.ToReal(n)
    tag = tag or f"{id(src.vec)}"
    smv = MV(False, src.vec, src.unit.dim)
    F = avg_fold(I, smv, getattr(src.vec, "name", None) or f"v{starts.uid}")
    full = F.at(n)
    rest = mv_scale(mv_shift(smv, n), r)
    rest = MV(r <= 0, rest.vec, rest.dim)
    res = mv_add(full, rest)
    vec = Vec(res.vec.inidx, res.vec._val, total=None if src.vec.total is None else D * src.vec.total)
    return X.new_expl(I, "ehq", DF(vec, src.unit), None, left=starts, right=duration, operator="hourly occurrences average")


REPO_SPECS[QN_AVG] = spec_avg


def loops_avg(I, starts):
    src = starts.value
    smv = MV(False, src.vec, src.unit.dim)
    F = avg_fold(I, smv, getattr(src.vec, "name", None) or f"v{starts.uid}")
    def loop0(ctx):
        def view(i):
            f = F.at(i)
            d = {"nb_avg_hourly_occurrences_in_parallel": Opt(i <= 0, DF(f.vec, src.unit))}
            lem = [z3.Implies(i >= 0, z3.And(f.vec.total == z3.ToReal(i) * src.vec.total, z3.Implies(i >= 1, z3.Not(f.is_empty))))]
            d["__lemma__"] = lem
            return d
        return view
    return {0: loop0}


SERVERS = ["Server", "GPUServer", "BoaviztaCloudServer"]
JOBS = ["Job", "WebApplicationJob", "VideoStreamingJob", "GenAIJob"]
CONCRETE = {}


def concrete(*classes):
    def deco(f):
        for key, sp in UPDATE_SPECS.items():
            if sp.spec is f: CONCRETE[key] = list(classes)
        return f
    return deco


# =====================================================================================================================
# InfraHardware / ServerBase
# =====================================================================================================================
@concrete(*SERVERS, "Storage")
@update("InfraHardware", "update_instances_fabrication_footprint")
def s_fab(I, g):
    """Fab(t) = cff * nb(t) * 1h / lifespan   (C12: proportional to cff and 1/lifespan; C02 finite: lifespan != 0)"""
    positive_inputs(I, g, "carbon_footprint_fabrication", "lifespan")
    I.require("lifespan is not zero", g.q("lifespan") != 0)
    return mv_scale(g.mv("nb_of_instances"), g.q("carbon_footprint_fabrication") * HOUR_S / g.q("lifespan"), W.MASS)


@concrete(*SERVERS, "Storage")
@update("InfraHardware", "update_energy_footprint")
def s_ef(I, g):
    """EF(t) = E(t) * carbon intensity that applies to the object (server: its own; storage: its server's)"""
    aci = g.raw("average_carbon_intensity")
    if isinstance(aci, ExplU): aci = I.resolve(aci)
    if aci.kind == "empty":
        return MV(True, EMPTY_VEC, W.MASS)
    return mv_scale(g.mv("instances_energy"), aci.value.phys, W.MASS)


@concrete(*SERVERS)
@update("ServerBase", "update_instances_energy")
def s_server_energy(I, g):
    """E(t) = idle*PUE*1h*nb(t) + (power-idle)*PUE*1h*raw(t)"""
    idle, power, pue = g.q("idle_power"), g.q("power"), g.q("power_usage_effectiveness")
    return mv_add(mv_scale(g.mv("nb_of_instances"), idle * pue * HOUR_S, W.ENERGY),
                  mv_scale(g.mv("raw_nb_of_instances"), (power - idle) * pue * HOUR_S, W.ENERGY))


def _server_compute_dim(I, g):
    c = g.raw("compute")
    if isinstance(c, ExplU): c = c.nonempty
    return c.value.unit.dim


def _jobs_hook(I, owner, lst):
    """jobs of a server express compute in the server's compute dimension (cpu_core / gpu): input invariant"""
    if I.world.issub(owner.cls, "ServerBase"):
        lst.elem_dims["compute_needed"] = _server_compute_dim(I, G(I, owner))


def need_fold(I, g, resource):
    jobs = g.lst("jobs")
    dim = DIMLESS if resource == "ram" else _server_compute_dim(I, g)
    def term(j):
        gj = G(I, jobs.elem(j))
        return mv_scale(gj.mv("hourly_avg_occurrences_across_usage_patterns"), gj.q(f"{resource}_needed"), dim)
    return FoldMV(I, f"need[{resource}]", term, dim, idx_name="need.idx"), jobs


def _need_loops():
    def loop0(ctx):
        I = ctx.interp
        resource = ctx.env["resource"]
        F, jobs = need_fold(I, G(I, ctx.env["self"]), resource)
        def view(i): return {"hour_by_hour_resource_needs": mv_to_explu(F.at(i))}
        view.commutative = True
        return view
    return {0: loop0}


def _mk_need(resource):
    @concrete(*SERVERS)
    @update("ServerBase", f"update_hour_by_hour_{resource}_need")
    def s_need(I, g):
        """need_R(t) = sum_job avgocc_across_job(t) * R_job   (C03: each job's load counted once, by timestamp)"""
        F, jobs = need_fold(I, g, resource)
        return F.at(jobs.n)
    return s_need


_mk_need("ram"); _mk_need("compute")


def _mk_occupied(resource, label):
    @concrete(*SERVERS)
    @update("ServerBase", f"update_occupied_{resource}_per_instance", kind="Q")
    def s_occ(I, g):
        """occupied_R = base_R + sum over installed services of their base_R  (C17: service base consumption added to the server's)"""
        sv = g.lst("installed_services")
        dim = DIMLESS if resource == "ram" else _server_compute_dim(I, g)
        sv.elem_dims[f"base_{resource}_consumption"] = dim
        def term(j):
            e = sv.elem(j)
            v = I.model_getattr(e, f"base_{resource}_consumption")
            if isinstance(v, ExplU): return z3.If(v.is_empty, z3.RealVal(0), v.nonempty.value.phys)
            return v.value.phys
        fq = FoldQ(I, f"occupied[{resource}]", term)
        return ("q", g.q(f"base_{resource}_consumption") + fq.at(sv.n), dim)
    return s_occ


_mk_occupied("ram", "RAM"); _mk_occupied("compute", "CPU")


def _mk_available(resource):
    @concrete(*SERVERS)
    @update("ServerBase", f"update_available_{resource}_per_instance", kind="Q")
    def s_av(I, g):
        """available_R = R * utilisation - occupied_R ; raises ValueError iff negative (C04/C15)"""
        dim = DIMLESS if resource == "ram" else _server_compute_dim(I, g)
        a = g.q(resource) * g.q("server_utilization_rate") - g.q(f"occupied_{resource}_per_instance")
        if I.eng.decide(a < 0): raise SymRaise("ValueError", "capacity exceeded")
        return ("q", a, dim)
    return s_av


_mk_available("ram"); _mk_available("compute")


def _need_invariant(resource):
    def hook(I, owner, value):
        """consistent-state invariant: the need series has the index / emptiness of the fold over the server's jobs"""
        F, jobs = need_fold(I, G(I, owner), resource)
        f = F.at(jobs.n)
        I.eng.assume(value.is_empty == f.is_empty)
        v = value.nonempty.value.vec
        I.add_universal(lambda t: z3.Implies(z3.Not(value.is_empty), v.inidx(t) == f.vec.inidx(t)))
    return hook


ATTR_INV = {("ServerBase", "hour_by_hour_ram_need"): _need_invariant("ram"),
            ("ServerBase", "hour_by_hour_compute_need"): _need_invariant("compute")}


@concrete(*SERVERS)
@update("ServerBase", "update_raw_nb_of_instances")
def s_raw(I, g):
    """raw(t) = max(need_ram(t)/available_ram, need_compute(t)/available_compute)"""
    ar, ac = g.q("available_ram_per_instance"), g.q("available_compute_per_instance")
    I.require("available RAM per instance is not zero", ar != 0)
    I.require("available compute per instance is not zero", ac != 0)
    r, c = g.mv("hour_by_hour_ram_need"), g.mv("hour_by_hour_compute_need")
    vec = Vec(r.vec.inidx, lambda t: z3.If(r.vec.val(t) / ar >= c.vec.val(t) / ac, r.vec.val(t) / ar, c.vec.val(t) / ac))
    return MV(r.is_empty, vec, DIMLESS)


def _post_covers_raw(I, g, res, qual):
    """C04: at every hour the number of instances is at least the raw need"""
    if isinstance(res, ExplU): res = I.resolve(res)
    raw = g.mv("raw_nb_of_instances")
    if res.kind == "ehq":
        I.eng.oblige(f"{qual}/C04: nb_of_instances(t) >= raw_nb_of_instances(t)",
                     z3.Implies(z3.And(z3.Not(raw.is_empty), raw.vec.inidx(TT)), res.value.vec.val(TT) >= raw.vec.val(TT)))


def _mk_nb(variant):
    def s_nb(I, g):
        raw = g.mv("raw_nb_of_instances")
        if variant == "autoscaling":
            return mv_map(raw, ceil_r)
        if variant == "serverless":
            return raw
        # on-premise
        fixed = g.raw("fixed_nb_of_instances")
        rawx = g.raw("raw_nb_of_instances")
        if I.eng.decide(raw.is_empty): return MV(True, EMPTY_VEC, DIMLESS)
        from ..interp import Series
        m = I.series_method(Series(DF(raw.vec, Unit(DIMLESS, 1.0))), "max", [], {})
        peak = ceil_r(m.phys)
        if isinstance(fixed, ExplU) and not I.eng.decide(fixed.is_empty) or isinstance(fixed, Expl) and fixed.kind == "eq":
            f = (fixed.nonempty if isinstance(fixed, ExplU) else fixed).value.phys
            if I.eng.decide(peak > f): raise SymRaise("ValueError", "fixed number of instances exceeded")
            return MV(False, Vec(raw.vec.inidx, lambda t: f), DIMLESS)
        return MV(False, Vec(raw.vec.inidx, lambda t: peak), DIMLESS)
    s_nb.__doc__ = "nb(t): serverless raw(t) | autoscaling ceil(raw(t)) | on-premise constant ceil(max raw), or the fixed count if it covers the peak, else ValueError"
    return s_nb


for _v in ("autoscaling", "serverless", "on-premise"):
    UPDATE_SPECS[("ServerBase", "update_nb_of_instances", _v)] = Spec("ServerBase", "update_nb_of_instances", spec=_mk_nb(_v), post=_post_covers_raw)
    CONCRETE[("ServerBase", "update_nb_of_instances", _v)] = list(SERVERS)


LOOP_SPECS = {"efootprint.core.hardware.server_base.ServerBase.compute_hour_by_hour_resource_need": _need_loops()}


# =====================================================================================================================
# Storage
# =====================================================================================================================
TB = 8 * 10**12


@update("Storage", "update_carbon_footprint_fabrication", kind="Q")
def st_cff(I, g):
    return ("q", g.q("carbon_footprint_fabrication_per_storage_capacity") * g.q("storage_capacity"), W.MASS)


@update("Storage", "update_power", kind="Q")
def st_power(I, g):
    return ("q", g.q("power_per_storage_capacity") * g.q("storage_capacity"), W.POWER)


def _stored_fold(I, g, positive):
    jobs = g.lst("jobs")
    def term(j):
        gj = G(I, jobs.elem(j))
        ds = gj.mv("hourly_data_stored_across_usage_patterns")
        st = gj.q("data_stored")
        return MV(z3.Or(ds.is_empty, (st < 0) if positive else (st >= 0)), ds.vec, DIMLESS)
    return FoldMV(I, "stored+" if positive else "stored-", term, DIMLESS), jobs


def _ghost_bounds(I, mv: MV, name):
    """give a specification series explicit tmin / tmax / len ghosts (with their defining facts)"""
    v = mv.vec
    v.tmin, v.tmax, v.n = z3.Int(name + ".tmin"), z3.Int(name + ".tmax"), z3.Int(name + ".len")
    I.eng.assume(z3.Implies(z3.Not(mv.is_empty), v.n >= 1))
    I.add_universal(lambda t: z3.Implies(z3.And(z3.Not(mv.is_empty), v.inidx(t)), z3.And(v.tmin <= t, t <= v.tmax)))
    I.eng.assume(z3.Implies(z3.Not(mv.is_empty), z3.And(v.inidx(v.tmin), v.inidx(v.tmax), v.tmin <= v.tmax)))
    I.add_point(v.tmin); I.add_point(v.tmax)
    return mv


def _cached(I, key, f):
    c = I.eng.run.cache
    if key not in c: c[key] = f()
    return c[key]


def mv_storage_needed(I, g):
    """needed(t) = replication * sum over jobs that store data (data_stored >= 0) of their hourly stored volume"""
    def mk():
        F, jobs = _stored_fold(I, g, True)
        return _ghost_bounds(I, mv_scale(F.at(jobs.n), g.q("data_replication_factor")), "storage_needed")
    return _cached(I, ("mv_storage_needed", g.o.name), mk)


def mv_storage_freed(I, g):
    def mk():
        F, jobs = _stored_fold(I, g, False)
        return _ghost_bounds(I, mv_scale(F.at(jobs.n), g.q("data_replication_factor")), "storage_freed")
    return _cached(I, ("mv_storage_freed", g.o.name), mk)


def _stored_loops(positive):
    def loops():
        def loop0(ctx):
            I = ctx.interp
            F, jobs = _stored_fold(I, G(I, ctx.env["self"]), positive)
            var = "storage_needed" if positive else "storage_freed"
            def view(i): return {var: mv_to_explu(F.at(i))}
            view.commutative = True
            return view
        return {0: loop0}
    return loops


@update("Storage", "storage_needed", attr="")
def st_needed(I, g): return mv_storage_needed(I, g)


@update("Storage", "storage_freed", attr="")
def st_freed(I, g): return mv_storage_freed(I, g)


def _explu_from_spec(I, mv, unit_name="TB", label="spec value"):
    u_ = I.units.literal(unit_name)
    e = Expl("ehq", DF(mv.vec, u_), Label(True, label))
    return ExplU(mv.is_empty, e)


def call_storage_needed(I, o): return _explu_from_spec(I, mv_storage_needed(I, G(I, o)), label="Hourly storage need")
def call_storage_freed(I, o): return _explu_from_spec(I, mv_storage_freed(I, G(I, o)), label="Hourly storage freed")


def _dump_shift(I, g):
    return ceil_i(g.q("data_storage_duration") / HOUR_S)


def mv_storage_dumps(I, g):
    """dumps: every replicated write expires S = ceil(storage duration in hours) hours later, within the modelled period:
    v0(dumps, t) = -needed(t - S) if t - S is an hour of `needed` and t <= tmax(needed), else 0.  The index is left
    abstract (ghost DIN) but lies inside [tmin(needed), tmax(needed)] and contains every hour with an expiry."""
    key = ("mv_storage_dumps", g.o.name)
    if key in I.eng.run.cache: return I.eng.run.cache[key]
    needed = mv_storage_needed(I, g)
    S = _dump_shift(I, g)
    DIN = z3.Function("storage_dumps.in", I_, B); DV = z3.Function("storage_dumps.val", I_, R)
    nv = needed.vec
    cond = lambda t: z3.And(nv.inidx(t - HOUR * S), t <= nv.tmax)
    I.add_universal(lambda t: z3.Implies(z3.Not(needed.is_empty), z3.And(
        z3.If(DIN(t), DV(t), z3.RealVal(0)) == z3.If(cond(t), -nv.val(t - HOUR * S), z3.RealVal(0)),
        z3.Implies(DIN(t), z3.And(nv.tmin <= t, t <= nv.tmax)),
        z3.Implies(cond(t), DIN(t)))))
    I.eng.run.cache[key] = (MV(needed.is_empty, Vec(lambda t: DIN(t), lambda t: DV(t)), DIMLESS), needed, S, cond)
    return I.eng.run.cache[key]


def call_storage_dumps(I, o):
    mv, _, _, _ = mv_storage_dumps(I, G(I, o))
    return _explu_from_spec(I, mv, "TB", label="Storage dumps")


def _post_dumps(I, g, res, qual):
    eng = I.eng
    mv, needed, S, cond = mv_storage_dumps(I, g)
    if isinstance(res, ExplU): res = I.resolve(res)
    if res.kind == "empty":
        eng.oblige(f"{qual}/Empty only when no job stores data", needed.is_empty); return
    eng.oblige(f"{qual}/Empty when no job stores data", z3.Not(needed.is_empty))
    v = res.value.vec; nv = needed.vec
    eng.oblige(f"{qual}/dimension", res.value.unit.dim == DIMLESS)
    eng.oblige(f"{qual}/expiry value: -needed(t - S) at expiry hours inside the period, 0 elsewhere",
               v.v0(TT) == z3.If(cond(TT), -nv.val(TT - HOUR * S), z3.RealVal(0)))
    eng.oblige(f"{qual}/index inside the modelled period", z3.Implies(v.inidx(TT), z3.And(nv.tmin <= TT, TT <= nv.tmax)))
    eng.oblige(f"{qual}/index contains every expiry hour", z3.Implies(cond(TT), v.inidx(TT)))
    eng.oblige(f"{qual}/shift is not negative", S >= 0)


@update("Storage", "automatic_storage_dumps_after_storage_duration", attr="", post=_post_dumps)
def st_dumps(I, g):
    positive_inputs(I, g, "data_storage_duration")
    return None


@update("Storage", "update_storage_delta")
def st_delta(I, g):
    """delta = needed + freed + dumps  (by timestamp, missing hours as zero)"""
    positive_inputs(I, g, "data_storage_duration")
    dumps, needed, S, cond = mv_storage_dumps(I, g)
    return mv_add(mv_add(needed, mv_storage_freed(I, g)), dumps)


def _post_cum(I, g, res, qual):
    if isinstance(res, ExplU): res = I.resolve(res)
    if res.kind == "ehq":
        v = res.value.vec
        I.eng.oblige(f"{qual}/C04: the cumulative stored volume is never negative", z3.Implies(v.inidx(TT), v.val(TT) >= 0))


@update("Storage", "update_full_cumulative_storage_need", post=_post_cum)
def st_cum(I, g):
    """cum(t) = base + running sum of delta up to t ; ValueError iff it goes negative at some hour"""
    d = g.mv("storage_delta")
    if I.eng.decide(d.is_empty): return MV(True, EMPTY_VEC, DIMLESS)
    base = g.q("base_storage_need")
    dv = d.vec
    vec = Vec(dv.inidx, lambda t: base + dv.prefix(t), tmin=dv.tmin, tmax=dv.tmax, n=dv.n, origin=dv.origin)
    from ..interp import Series
    m = I.series_method(Series(DF(vec, Unit(DIMLESS, 1.0))), "min", [], {})
    if I.eng.decide(m.phys < 0): raise SymRaise("ValueError", "negative cumulative storage need")
    return MV(False, vec, DIMLESS)


@update("Storage", "update_raw_nb_of_instances")
def st_raw(I, g):
    cap = g.q("storage_capacity")
    I.require("storage capacity is not zero", cap != 0)
    return mv_scale(g.mv("full_cumulative_storage_need"), 1 / cap, DIMLESS)


@update("Storage", "update_nb_of_instances", post=_post_covers_raw)
def st_nb(I, g):
    """nb(t) = ceil(raw(t)), or the user-fixed count when it covers the peak (ValueError otherwise)"""
    raw = g.mv("raw_nb_of_instances")
    fixed = g.raw("fixed_nb_of_instances")
    if I.eng.decide(raw.is_empty): return MV(True, EMPTY_VEC, DIMLESS)
    nb = mv_map(raw, ceil_r)
    if not I.eng.decide(fixed.is_empty):
        from ..interp import Series
        m = I.series_method(Series(DF(nb.vec, Unit(DIMLESS, 1.0))), "max", [], {})
        f = fixed.nonempty.value.phys
        if I.eng.decide(m.phys > f): raise SymRaise("ValueError", "fixed number of instances exceeded")
        return MV(False, Vec(raw.vec.inidx, lambda t: f), DIMLESS)
    return nb


def _abs(x): return z3.If(x >= 0, x, -x)


def _post_active(I, g, res, qual):
    if isinstance(res, ExplU): res = I.resolve(res)
    nb = g.mv("nb_of_instances")
    if res.kind == "ehq":
        v = res.value.vec
        I.eng.oblige(f"{qual}/C04: active instances never exceed provisioned ones",
                     z3.Implies(z3.And(v.inidx(TT), z3.Not(nb.is_empty), nb.vec.inidx(TT)), v.val(TT) <= _abs(nb.vec.val(TT))))


@update("Storage", "update_nb_of_active_instances", post=_post_active)
def st_active(I, g):
    """active(t) = min( (max(|needed|(t), |freed|(t)) + |dumps|(t)) / capacity , |nb|(t) )  -- combined BY TIMESTAMP,
    hours missing from one series counting as zero (C04: never by position)"""
    positive_inputs(I, g, "data_storage_duration")
    cap = g.q("storage_capacity")
    I.require("storage capacity is not zero", cap != 0)
    dumps, needed, S, cond = mv_storage_dumps(I, g)
    freed = mv_storage_freed(I, g)
    nb = g.mv("nb_of_instances")
    mx = lambda a, b: z3.If(a >= b, a, b)
    mn = lambda a, b: z3.If(a <= b, a, b)
    tmp_in = lambda t: z3.Or(needed.inidx(t), freed.inidx(t), dumps.inidx(t))
    tmp_val = lambda t: (mx(_abs(needed.v0(t)), _abs(freed.v0(t))) + _abs(dumps.v0(t))) / cap
    vec = Vec(tmp_in, lambda t: mn(tmp_val(t), _abs(nb.v0(t))))
    return MV(z3.And(needed.is_empty, freed.is_empty), vec, DIMLESS)


@update("Storage", "update_instances_energy")
def st_energy(I, g):
    """E(t) = active(t)*power*1h*PUE + (nb(t) - active(t))*idle_power*1h*PUE, PUE being the server's (C12)"""
    pue = g.raw("power_usage_effectiveness")
    if isinstance(pue, ExplU): pue = I.resolve(pue)
    nb, act = g.mv("nb_of_instances"), g.mv("nb_of_active_instances")
    if pue.kind == "empty": return MV(True, EMPTY_VEC, W.ENERGY)
    p = pue.value.phys
    power, idle = g.q("power"), g.q("idle_power")
    vec = Vec(nb.vec.inidx, lambda t: act.vec.val(t) * power * HOUR_S * p + (nb.vec.val(t) - act.vec.val(t)) * idle * HOUR_S * p)
    return MV(nb.is_empty, vec, W.ENERGY)


def _same_index_inv(other_attr):
    def hook(I, owner, value):
        o = mv_of(I.model_getattr(owner, other_attr))
        I.eng.assume(value.is_empty == o.is_empty)
        v = value.nonempty.value.vec
        I.add_universal(lambda t: z3.Implies(z3.Not(value.is_empty), v.inidx(t) == o.vec.inidx(t)))
    return hook


def _storage_index_inv(I, owner, value):
    """consistent state: nb_of_instances (like raw / cumulative need / delta) lives on the index of needed+freed+dumps"""
    g = G(I, owner)
    I.eng.assume(g.q("data_storage_duration") >= 0)
    dumps, needed, S, cond = mv_storage_dumps(I, g)
    d = mv_add(mv_add(needed, mv_storage_freed(I, g)), dumps)
    I.eng.assume(value.is_empty == d.is_empty)
    v = value.nonempty.value.vec
    I.add_universal(lambda t: z3.Implies(z3.Not(value.is_empty), v.inidx(t) == d.vec.inidx(t)))


ATTR_INV[("Storage", "nb_of_active_instances")] = _same_index_inv("nb_of_instances")
ATTR_INV[("Storage", "nb_of_instances")] = _storage_index_inv
WORLD_SPECS = {("Storage", "storage_needed"): call_storage_needed, ("Storage", "storage_freed"): call_storage_freed,
               ("Storage", "automatic_storage_dumps_after_storage_duration"): call_storage_dumps}
LOOP_SPECS["efootprint.core.hardware.storage.Storage.storage_needed"] = _stored_loops(True)()
LOOP_SPECS["efootprint.core.hardware.storage.Storage.storage_freed"] = _stored_loops(False)()


QN_DF_FROM_LIST = "efootprint.builders.time_builders.create_hourly_usage_df_from_list"


def spec_df_from_list(I, input_list, start_date=None, pint_unit=None):
    """contract of create_hourly_usage_df_from_list: one value per hour from start_date, element for element, in pint_unit
    (its own body is verified against this contract under C20)"""
    from ..interp import TS
    if start_date is None or start_date is NONE: raise Unsupported("default start date")
    if not isinstance(start_date, TS): raise Unsupported("start date kind")
    unit = pint_unit if isinstance(pint_unit, Unit) else I.units.literal("dimensionless")
    if isinstance(input_list, SList):
        n = input_list.n
        elemf = lambda i: input_list.elem(i)
    elif isinstance(input_list, list):
        n = z3.IntVal(len(input_list)); elemf = None
    else:
        raise Unsupported("input list kind")
    s0 = start_date.tick
    def inidx(t): return z3.And(t >= s0, t < s0 + HOUR * n, (t - s0) % HOUR == 0)
    def val(t):
        if isinstance(input_list, SList):
            e = input_list.elem((t - s0) / HOUR)
            return e.r * unit.f
        out = z3.RealVal(0)
        for k, e in enumerate(input_list):
            out = z3.If(t == s0 + HOUR * k, e.r * unit.f, out)
        return out
    vec = Vec(inidx, val, tmin=s0, tmax=s0 + HOUR * (n - 1), n=n)
    return DF(vec, unit)


REPO_SPECS[QN_DF_FROM_LIST] = spec_df_from_list


# =====================================================================================================================
# UsageJourney / UsagePattern
# =====================================================================================================================
def equiv_maybe_q(I, got, is_empty, phys, dim, name):
    eng = I.eng
    if isinstance(got, ExplU): got = I.resolve(got)
    if got.kind == "empty":
        eng.oblige(f"{name}/result is Empty only when the specification is", is_empty); return
    eng.oblige(f"{name}/result is Empty when the specification is", z3.Not(is_empty))
    if got.kind != "eq": eng.oblige(f"{name}/result kind", False); return
    eng.oblige(f"{name}/dimension", got.value.unit.dim == dim)
    eng.oblige(f"{name}/value", z3.Implies(z3.Not(is_empty), got.value.phys == phys))


def _post_duration(I, g, res, qual):
    steps = g.lst("uj_steps")
    fq = FoldQ(I, "duration", lambda j: G(I, steps.elem(j)).q("user_time_spent"))
    equiv_maybe_q(I, res, steps.n == 0, fq.at(steps.n), W.TIME, qual)


def _duration_inv(I, owner, value):
    v = value.nonempty if isinstance(value, ExplU) else value
    I.eng.assume(v.value.phys >= 0)


ATTR_INV[("UsageJourney", "duration")] = _duration_inv


def _post_duration(I, g, res, qual, _base=_post_duration):
    _base(I, g, res, qual)
    steps = g.lst("uj_steps")
    fq = FoldQ(I, "duration", lambda j: G(I, steps.elem(j)).q("user_time_spent"))
    induct(I, "a sum of non-negative durations is non-negative", lambda k: fq.at(k) >= 0, steps.n)
    r = I.resolve(res) if isinstance(res, ExplU) else res
    if r.kind == "eq": I.eng.oblige(f"{qual}/invariant: duration >= 0", r.value.phys >= 0)


@update("UsageJourney", "update_duration", post=_post_duration, kind="E|Q")
def uj_duration(I, g):
    """duration = sum of the steps' user_time_spent (Empty for a journey without steps)"""
    return None


def _par(I, g):
    return g.mv("nb_usage_journeys_in_parallel")


def _post_parallel(I, g, res, qual):
    """journeys in parallel = avg(utc starts, journey duration): C03 conservation starts x duration"""
    utc = g.raw("utc_hourly_usage_journey_starts")
    dur = G(I, g.raw("usage_journey")).raw("duration")
    I.phase = "spec"
    want = spec_avg(I, utc, dur)
    I.phase = "body"
    from .model_verify import equiv_mv
    equiv_mv(I, res, mv_of(want), qual)


@update("UsagePattern", "update_nb_usage_journeys_in_parallel", post=_post_parallel)
def up_parallel(I, g):
    return None


def _devices_power(I, g):
    dev = g.lst("devices")
    return FoldQ(I, "devices power", lambda j: G(I, dev.elem(j)).q("power")), dev


@update("UsagePattern", "update_devices_energy")
def up_dev_energy(I, g):
    """devE(t) = par(t) * (sum of device powers) * 1h   (C12: proportional to device power; C03: starts x duration)"""
    fq, dev = _devices_power(I, g)
    I.require("a usage pattern has at least one device", dev.n >= 1)
    return mv_scale(_par(I, g), fq.at(dev.n) * HOUR_S, W.ENERGY)


@update("UsagePattern", "update_devices_energy_footprint")
def up_dev_ef(I, g):
    """device energy footprint = device energy x carbon intensity of the usage pattern's country"""
    return mv_scale(g.mv("devices_energy"), G(I, g.raw("country")).q("average_carbon_intensity"), W.MASS)


def _devices_hook(I, owner, lst):
    """input invariant (precondition; validation accepts 0, which then raises ZeroDivisionError): every device has a
    non-zero lifespan and fraction of usage time"""
    def facts(I_, o):
        d = G(I_, o)
        I_.eng.assume(z3.And(d.q("lifespan") != 0, d.q("fraction_of_usage_time") != 0))
    lst.elem_facts = facts


def _dev_fab_fold(I, g):
    dev = g.lst("devices")
    def term(j):
        d = G(I, dev.elem(j))
        return d.q("carbon_footprint_fabrication") * HOUR_S / (d.q("lifespan") * d.q("fraction_of_usage_time"))
    return FoldQ(I, "devices fabrication per hour", term), dev


def _dev_fab_loops():
    def loop0(ctx):
        I = ctx.interp
        g = G(I, ctx.env["self"])
        fq, dev = _dev_fab_fold(I, g)
        def view(i):
            unit = Unit(W.MASS, z3.Real("devfab.unit")); I.eng.assume(unit.f > 0)
            e = Expl("eq", Qty(fq.at(i), unit), Label(False))
            return {"devices_fabrication_footprint_over_one_hour": ExplU(i <= 0, e)}
        return view
    return {0: loop0}


@update("UsagePattern", "update_devices_fabrication_footprint", loops=lambda I, g: _dev_fab_loops())
def up_dev_fab(I, g):
    """devFab(t) = par(t) * sum_dev cff_dev * 1h / (lifespan_dev * fraction_of_usage_time_dev)   (C12)"""
    fq, dev = _dev_fab_fold(I, g)
    par = _par(I, g)
    return MV(z3.Or(par.is_empty, dev.n <= 0), mv_scale(par, fq.at(dev.n)).vec, W.MASS)


@update("UsagePattern", "update_energy_footprint")
def up_ef(I, g):
    return g.mv("devices_energy_footprint")


@update("UsagePattern", "update_instances_fabrication_footprint")
def up_fab(I, g):
    return g.mv("devices_fabrication_footprint")


# =====================================================================================================================
# JobBase  (C03)
# =====================================================================================================================
def occ_ghosts(I, job, up):
    """ghost specification of the occurrences of `job` in usage pattern `up`:
       occ(t) = sum over steps i, over positions j of step i holding this job, of utc_starts(t - floor(delay_i) hours),
       delay_i = sum of the user_time_spent of the steps before i"""
    key = ("occ_ghosts", job.name, up.name)
    if key in I.eng.run.cache: return I.eng.run.cache[key]
    gup = G(I, up)
    steps = gup.obj("usage_journey").lst("uj_steps")
    utc = gup.mv("utc_hourly_usage_journey_starts")
    delay = FoldQ(I, "delay", lambda i: G(I, steps.elem(i)).q("user_time_spent"))
    sh = lambda i: floor_i(delay.at(i) / HOUR_S)
    def jobs_of(i): return I.model_getattr(steps.elem(i), "jobs")
    def isme(i, j): return I.world.model_eq(I, job, jobs_of(i).elem(j))
    def inner(i):
        return FoldMV(I, f"occ.inner[{job.name},{up.name}]", lambda j: MV(z3.Or(utc.is_empty, z3.Not(isme(i, j))), mv_shift(utc, sh(i)).vec, DIMLESS),
                      DIMLESS, params=(i,))
    def cin(i):
        return FoldQ(I, f"cnt.inner[{job.name},{up.name}]", lambda j: z3.If(isme(i, j), z3.RealVal(1), z3.RealVal(0)), params=(i,))
    outer = FoldMV(I, f"occ.outer[{job.name},{up.name}]", lambda i: inner(i).at(jobs_of(i).n), DIMLESS, params=(z3.IntVal(0),))
    cout = FoldQ(I, f"cnt.outer[{job.name},{up.name}]", lambda i: cin(i).at(jobs_of(i).n), params=(z3.IntVal(0),))
    r = dict(steps=steps, utc=utc, delay=delay, sh=sh, jobs_of=jobs_of, inner=inner, cin=cin, outer=outer, cout=cout)
    I.eng.run.cache[key] = r
    return r


def _occ_loops():
    def loop0(ctx):
        I = ctx.interp
        gh = occ_ghosts(I, ctx.env["self"], ctx.env["usage_pattern"])
        utc = gh["utc"]
        def view(i):
            f = gh["outer"].at(i)
            unit = Unit(W.TIME, z3.Real("delay.unit")); I.eng.assume(unit.f > 0)
            d = ExplU(i <= 0, Expl("eq", Qty(gh["delay"].at(i), unit), Label(True, "delay")))
            lem = [z3.Implies(z3.Not(utc.is_empty), f.vec.total == gh["cout"].at(i) * utc.vec.total),
                   z3.Implies(utc.is_empty, f.is_empty), gh["delay"].at(i) >= 0]
            return {"job_occurrences": mv_to_explu(f), "delay_between_uj_start_and_job_evt": d, "__lemma__": lem}
        return view
    def loop1(ctx):
        I = ctx.interp
        gh = occ_ghosts(I, ctx.env["self"], ctx.env["usage_pattern"])
        utc = gh["utc"]
        i = ctx.env["uj_step"].index
        def view(j):
            f = mv_add(gh["outer"].at(i), gh["inner"](i).at(j))
            lem = [z3.Implies(z3.Not(utc.is_empty), gh["inner"](i).at(j).total0 == gh["cin"](i).at(j) * utc.vec.total),
                   z3.Implies(utc.is_empty, gh["inner"](i).at(j).is_empty)]
            return {"job_occurrences": mv_to_explu(f), "__lemma__": lem}
        return view
    return {0: loop0, 1: loop1}


def _post_occ(I, g, res, qual):
    from .model_verify import equiv_mv
    up = I.eng.run.cache["arg:usage_pattern"]
    gh = occ_ghosts(I, g.o, up)
    n = gh["steps"].n
    f = gh["outer"].at(n)
    equiv_mv(I, res, f, qual)
    r = I.resolve(res) if isinstance(res, ExplU) else res
    if r.kind == "ehq":
        I.eng.oblige(f"{qual}/C03: total occurrences = journey starts x number of appearances of the job in the journey",
                     r.value.vec.total == gh["cout"].at(n) * gh["utc"].vec.total)
    I.eng.oblige(f"{qual}/label", r.label.nonempty)


@concrete("Job")
@update("JobBase", "compute_hourly_occurrences_for_usage_pattern", attr="", post=_post_occ, loops=lambda I, g: _occ_loops())
def job_occ(I, g):
    return None


def _dx_fold(I, job, up, kind):
    g = G(I, job)
    occ = mv_of(I.model_getattr(job, "hourly_occurrences_per_usage_pattern").get(I, up))
    X = g.q(kind)
    F = ceil_i(g.q("request_duration") / HOUR_S)
    per_hour = X / z3.ToReal(F)
    fold = FoldMV(I, f"dx[{kind}]", lambda k: mv_scale(mv_shift(occ, k), per_hour), DIMLESS)
    return fold, occ, X, F, per_hour


def _dx_loops():
    def loop0(ctx):
        I = ctx.interp
        fold, occ, X, F, ph = _dx_fold(I, ctx.env["self"], ctx.env["usage_pattern"], ctx.env["data_exchange_type"])
        def view(i):
            f = fold.at(i)
            lem = [z3.Implies(z3.And(i >= 0, z3.Not(occ.is_empty)), f.vec.total == z3.ToReal(i) * ph * occ.vec.total),
                   z3.Implies(z3.And(i >= 1, z3.Not(occ.is_empty)), z3.Not(f.is_empty)),
                   z3.Implies(occ.is_empty, f.is_empty)]
            return {"hourly_data_exchange": mv_to_explu(f), "__lemma__": lem}
        return view
    return {0: loop0}


def _mk_dx(kind):
    def post(I, g, res, qual):
        from .model_verify import equiv_mv
        up = I.eng.run.cache["arg:usage_pattern"]
        fold, occ, X, F, ph = _dx_fold(I, g.o, up, kind)
        equiv_mv(I, res, fold.at(F), qual)
        r = I.resolve(res) if isinstance(res, ExplU) else res
        if r.kind == "ehq":
            I.eng.oblige(f"{qual}/C03: total {kind} = occurrences x per-request amount",
                         z3.Implies(z3.Not(occ.is_empty), r.value.vec.total == X * occ.vec.total))
        I.eng.oblige(f"{qual}/label", r.label.nonempty)
    @concrete("Job")
    @update("JobBase", "compute_hourly_data_exchange_for_usage_pattern", attr="", post=post, loops=lambda I, g: _dx_loops())
    def job_dx(I, g):
        """dX(t) = sum_{k < F} occ(t - k) * X / F,  F = ceil(request duration in hours)  (precondition: request duration > 0)"""
        I.require("request duration is positive (C03: 'from sub-second')", g.q("request_duration") > 0)
        return None
    job_dx.extra_args = lambda I, w: [w.new_obj("UsagePattern", "up"), kind]
    UPDATE_SPECS[("JobBase", "compute_hourly_data_exchange_for_usage_pattern", kind)] = UPDATE_SPECS.pop(("JobBase", "compute_hourly_data_exchange_for_usage_pattern"))
    CONCRETE[("JobBase", "compute_hourly_data_exchange_for_usage_pattern", kind)] = ["Job"]
    return job_dx


_mk_dx("data_transferred"); _mk_dx("data_stored")
job_occ.extra_args = lambda I, w: [w.new_obj("UsagePattern", "up")]


def _across_loops():
    def loop0(ctx):
        I = ctx.interp
        job = ctx.env["self"]; name = ctx.env["calculated_attribute_name"]
        ups = I.model_getattr(job, "usage_patterns")
        d = I.model_getattr(job, name)
        fold = FoldMV(I, f"across[{name}]", lambda j: mv_of(d.get(I, ups.elem(j))), DIMLESS)
        def view(i): return {"hourly_calc_attr_summed_across_ups": mv_to_explu(fold.at(i))}
        view.commutative = True
        return view
    return {0: loop0}


def _mk_across(name, label):
    def post(I, g, res, qual):
        from .model_verify import equiv_mv
        ups = g.lst("usage_patterns")
        d = g.raw(name)
        fold = FoldMV(I, f"across[{name}]", lambda j: mv_of(d.get(I, ups.elem(j))), DIMLESS)
        equiv_mv(I, res, fold.at(ups.n), qual)
    @update("JobBase", "sum_calculated_attribute_across_usage_patterns", attr="", post=post, loops=lambda I, g: _across_loops())
    def f(I, g):
        """across(t) = sum over the job's usage patterns of the per-pattern series (by timestamp, each pattern once)"""
        return None
    f.extra_args = lambda I, w: [name, label]
    UPDATE_SPECS[("JobBase", "sum_calculated_attribute_across_usage_patterns", name)] = UPDATE_SPECS.pop(("JobBase", "sum_calculated_attribute_across_usage_patterns"))
    CONCRETE[("JobBase", "sum_calculated_attribute_across_usage_patterns", name)] = ["Job"]


for _n, _l in (("hourly_occurrences_per_usage_pattern", "occurrences"), ("hourly_avg_occurrences_per_usage_pattern", "average occurrences"),
               ("hourly_data_transferred_per_usage_pattern", "data transferred"), ("hourly_data_stored_per_usage_pattern", "data stored")):
    _mk_across(_n, _l)


# =====================================================================================================================
# Builders (C17): derived parameters follow the stated rule
# =====================================================================================================================
CPU = Dim({"[cpu_core]": 1}); GPU = Dim({"[gpu]": 1}); PER_S = Dim({"[time]": -1})
RESOLUTIONS = {"480p (640 x 480)": 640 * 480, "720p (1280 x 720)": 1280 * 720, "1080p (1920 x 1080)": 1920 * 1080,
               "1440p (2560 x 1440)": 2560 * 1440, "2K (2048 x 1080)": 2048 * 1080, "4K (3840 x 2160)": 3840 * 2160, "8K (7680 x 4320)": 7680 * 4320}


@update("VideoStreamingJob", "update_request_duration", kind="Q")
def v_dur(I, g): return ("q", g.q("video_duration"), W.TIME)


def _mk_bitrate(res, pixels):
    def v_bitrate(I, g):
        """bitrate = pixels x bits per pixel x frame rate"""
        return ("q", pixels * G(I, g.raw("service")).q("bits_per_pixel") * g.q("refresh_rate"), PER_S)
    UPDATE_SPECS[("VideoStreamingJob", "update_dynamic_bitrate", res)] = Spec("VideoStreamingJob", "update_dynamic_bitrate", spec=v_bitrate, kind="Q")


for _r, _p in RESOLUTIONS.items(): _mk_bitrate(_r, _p)


@update("VideoStreamingJob", "update_data_transferred", kind="Q")
def v_dt(I, g):
    """data transferred = bitrate x duration"""
    return ("q", g.q("request_duration") * g.q("dynamic_bitrate"), DIMLESS)


@update("VideoStreamingJob", "update_compute_needed", kind="Q")
def v_cpu(I, g): return ("q", G(I, g.raw("service")).q("static_delivery_cpu_cost") * g.q("dynamic_bitrate"), CPU)


@update("VideoStreamingJob", "update_ram_needed", kind="Q")
def v_ram(I, g): return ("q", G(I, g.raw("service")).q("ram_buffer_per_user"), DIMLESS)


@update("GPUServer", "update_carbon_footprint_fabrication", kind="Q")
def gpu_cff(I, g): return ("q", g.q("carbon_footprint_fabrication_without_gpu") + g.q("compute") * g.q("carbon_footprint_fabrication_per_gpu"), W.MASS)


@update("GPUServer", "update_power", kind="Q")
def gpu_power(I, g): return ("q", g.q("gpu_power") * g.q("compute"), W.POWER)


@update("GPUServer", "update_idle_power", kind="Q")
def gpu_idle(I, g): return ("q", g.q("gpu_idle_power") * g.q("compute"), W.POWER)


@update("GPUServer", "update_ram", kind="Q")
def gpu_ram(I, g): return ("q", g.q("ram_per_gpu") * g.q("compute"), DIMLESS)


@update("GenAIModel", "update_base_ram_consumption", kind="Q")
def gen_base_ram(I, g): return ("q", g.q("llm_memory_factor") * g.q("total_params") * g.q("nb_of_bits_per_parameter"), DIMLESS)


@update("GenAIJob", "update_output_token_weights", kind="Q")
def gj_w(I, g): return ("q", g.q("output_token_count") * G(I, g.raw("service")).q("bits_per_token"), DIMLESS)


@update("GenAIJob", "update_data_stored", kind="Q")
def gj_ds(I, g): return ("q", 100 * 8000 + g.q("output_token_weights"), DIMLESS)


@update("GenAIJob", "update_data_transferred", kind="Q")
def gj_dt(I, g): return ("q", 100 * 8000 + g.q("output_token_weights"), DIMLESS)


@update("GenAIJob", "update_request_duration", kind="Q")
def gj_dur(I, g):
    s = G(I, g.raw("service"))
    return ("q", g.q("output_token_count") * (s.q("gpu_latency_alpha") * s.q("active_params") + s.q("gpu_latency_beta")), W.TIME)


@update("GenAIJob", "update_ram_needed", kind="Q")
def gj_ram(I, g): return ("q", z3.RealVal(0), DIMLESS)


@update("GenAIJob", "update_compute_needed", kind="Q")
def gj_cpu(I, g):
    s = G(I, g.raw("service"))
    rpg = G(I, s.raw("server")).q("ram_per_gpu")
    I.require("ram_per_gpu is not zero", rpg != 0)
    return ("q", s.q("llm_memory_factor") * s.q("active_params") * s.q("nb_of_bits_per_parameter") / rpg, GPU)


# =====================================================================================================================
# Network  (C02: per usage pattern, the country's intensity; C12; C19)
# =====================================================================================================================
def net_ghosts(I, net):
    key = ("net_ghosts", net.name)
    if key in I.eng.run.cache: return I.eng.run.cache[key]
    g = G(I, net)
    ups, jobs = g.lst("usage_patterns"), g.lst("jobs")
    def jups(j): return I.model_getattr(jobs.elem(j), "usage_patterns")
    def member(j, m):
        x = jups(j).elem(m)
        IN = I.world.member_formula(I, ups, x)
        return IN, x.pos_in[ups.name], x
    def dT(j, m):
        IN, pos, x = member(j, m)
        return mv_of(I.model_getattr(jobs.elem(j), "hourly_data_transferred_per_usage_pattern").get(I, x))
    def inner(j, k):
        """sum over the positions m of job j's usage patterns that are the network's k-th usage pattern"""
        def term(m):
            IN, pos, x = member(j, m)
            d = dT(j, m)
            return MV(z3.Or(d.is_empty, z3.Not(z3.And(IN, pos == k))), d.vec, DIMLESS)
        return FoldMV(I, f"net.inner[{net.name}]", term, DIMLESS, params=(j, k))
    def outer(k):
        return FoldMV(I, f"net.outer[{net.name}]", lambda j: inner(j, k).at(jups(j).n), DIMLESS, params=(k,))
    bei = g.q("bandwidth_energy_intensity")
    def aci(k): return G(I, I.model_getattr(ups.elem(k), "country")).q("average_carbon_intensity")
    total = FoldMV(I, f"net.total[{net.name}]", lambda k: mv_scale(outer(k).at(jobs.n), bei * aci(k), W.MASS), W.MASS, params=(z3.IntVal(0),))
    r = dict(ups=ups, jobs=jobs, jups=jups, inner=inner, outer=outer, total=total, bei=bei, aci=aci)
    I.eng.run.cache[key] = r
    return r


def _net_loops():
    def empty_expl(I):
        return X.new_expl(I, "empty", None, "no value")
    def loop0(ctx):      # for job in self.jobs
        I = ctx.interp; gh = net_ghosts(I, ctx.env["self"])
        def view(i):
            return {"hourly_data_transferred_per_up": KDict(gh["ups"], lambda k: mv_to_explu(gh["outer"](k).at(i)))}
        view.commutative = True
        return view
    def loop1(ctx):      # for up in job_ups_in_network_ups
        I = ctx.interp; gh = net_ghosts(I, ctx.env["self"])
        j = ctx.env["job"].index
        def view(m):
            return {"hourly_data_transferred_per_up": KDict(gh["ups"], lambda k: mv_to_explu(mv_add(gh["outer"](k).at(j), gh["inner"](j, k).at(m))))}
        view.commutative = True
        return view
    def loop2(ctx):      # for up in self.usage_patterns
        I = ctx.interp; gh = net_ghosts(I, ctx.env["self"])
        def view(i): return {"energy_footprint": mv_to_explu(gh["total"].at(i))}
        view.commutative = True
        return view
    return {0: loop0, 1: loop1, 2: loop2}


@update("Network", "update_energy_footprint", loops=lambda I, g: _net_loops())
def net_ef(I, g):
    """EF(t) = sum over the network's usage patterns up of  intensity(country of up) * bandwidth energy intensity *
    sum over the jobs of up of the data they transfer for up at hour t   (each (job, usage pattern) pair once)"""
    gh = net_ghosts(I, g.o)
    return gh["total"].at(gh["ups"].n)


# =====================================================================================================================
# System  (C02: every component exactly once)
# =====================================================================================================================
def _sys_fold(I, g, lst_attr, attr):
    lst = g.lst(lst_attr)
    return FoldMV(I, f"system.{lst_attr}.{attr}", lambda j: mv_of(I.model_getattr(lst.elem(j), attr)), W.MASS), lst


@update("System", "update_total_footprint")
def sys_total(I, g):
    """total(t) = round_4( sum over servers, storages, usage patterns of (fabrication + energy footprint)(t) + sum over networks of
    energy footprint(t) ), each collection being duplicate free (set-derived), every object once"""
    parts = []
    for la, attrs in (("servers", ("instances_fabrication_footprint", "energy_footprint")), ("storages", ("instances_fabrication_footprint", "energy_footprint")),
                      ("networks", ("energy_footprint",)), ("usage_patterns", ("instances_fabrication_footprint", "energy_footprint"))):
        for a in attrs:
            f, lst = _sys_fold(I, g, la, a)
            parts.append(f.at(lst.n))
    I.require("a system has at least one usage pattern", g.lst("usage_patterns").n >= 1)
    # precondition: the system lists no usage pattern twice (the id-keyed dictionaries would count a repeated one once)
    g.lst("usage_patterns").dupfree = True
    tot = parts[0]
    for p_ in parts[1:]: tot = mv_add(tot, p_)
    kgf = I.units.literal("kg").f
    return mv_map(tot, lambda x: I.round_term(x / kgf, PyNum(z3.IntVal(4))) * kgf, W.MASS)


# =====================================================================================================================
# JobBase.update_*_per_usage_pattern  (C02 / C03: every usage pattern of the job gets its own entry, none missing, none mixed up)
# =====================================================================================================================
def _callee_result(I, job, up, what, dim=None):
    """call-site contract of compute_hourly_occurrences_for_usage_pattern / compute_hourly_data_exchange_for_usage_pattern:
    the value the callee computes for this usage pattern (its content is the callee's own contract, proved in its own job),
    a fresh labelled object that nothing holds yet"""
    v = W.UPDict(I.world, job, f"<{what}>", dim or DIMLESS).get(I, up)
    for e in (v.nonempty,):
        e.attached = None; e.fresh_obj = True
    return v


def call_job_occ(I, job, usage_pattern):
    return _callee_result(I, job, usage_pattern, "compute_hourly_occurrences_for_usage_pattern")


def call_job_dx(I, job, usage_pattern, data_exchange_type):
    if not isinstance(data_exchange_type, str): raise Unsupported("data exchange type is not a literal")
    return _callee_result(I, job, usage_pattern, f"compute_hourly_data_exchange_for_usage_pattern:{data_exchange_type}")


WORLD_SPECS[("JobBase", "compute_hourly_occurrences_for_usage_pattern")] = call_job_occ
WORLD_SPECS[("JobBase", "compute_hourly_data_exchange_for_usage_pattern")] = call_job_dx


def _avg_entry(I, job, up):
    occ = I.model_getattr(job, "hourly_occurrences_per_usage_pattern").get(I, up)
    rd = I.model_getattr(job, "request_duration")
    r = spec_avg(I, occ, rd)
    return r


def _mk_dict_update(fn, attr, value_of, doc):
    def loops(I, g):
        def loop0(ctx):
            I_ = ctx.interp; job = ctx.env["self"]; ups = ctx.it
            def view(i):
                d = KDict(ups, lambda k: value_of(I_, job, ups.elem(k)), dom=lambda k, i=i: k < i); d.explainable_dict = True
                return {f"self.{attr}": d}
            view.commutative = True         # entries are written under distinct keys: the order of the usage patterns is irrelevant
            return view
        return {0: loop0}
    def spec(I, g):
        ups = g.lst("usage_patterns")
        return KDict(ups, lambda k: value_of(I, g.o, ups.elem(k)))
    spec.__doc__ = doc
    UPDATE_SPECS[("JobBase", fn)] = Spec("JobBase", fn, attr=attr, spec=spec, loops=loops)
    CONCRETE[("JobBase", fn)] = ["Job"]


_mk_dict_update("update_hourly_occurrences_per_usage_pattern", "hourly_occurrences_per_usage_pattern",
                lambda I, job, up: call_job_occ(I, job, up),
                "entry[up] = compute_hourly_occurrences_for_usage_pattern(up) for every usage pattern of the job, and no other key")
_mk_dict_update("update_hourly_avg_occurrences_per_usage_pattern", "hourly_avg_occurrences_per_usage_pattern", _avg_entry,
                "entry[up] = avg(hourly_occurrences_per_usage_pattern[up], request_duration) for every usage pattern of the job, and no other key")
_mk_dict_update("update_hourly_data_transferred_per_usage_pattern", "hourly_data_transferred_per_usage_pattern",
                lambda I, job, up: call_job_dx(I, job, up, "data_transferred"),
                "entry[up] = compute_hourly_data_exchange_for_usage_pattern(up, 'data_transferred') for every usage pattern of the job, and no other key")
_mk_dict_update("update_hourly_data_stored_per_usage_pattern", "hourly_data_stored_per_usage_pattern",
                lambda I, job, up: call_job_dx(I, job, up, "data_stored"),
                "entry[up] = compute_hourly_data_exchange_for_usage_pattern(up, 'data_stored') for every usage pattern of the job, and no other key")


# =====================================================================================================================
# BoaviztaCloudServer  (C17: parameters extracted from the packaged Boavizta data, value for value)
# =====================================================================================================================
def _boavizta_response(I, o, v):
    """the API response as a nested dictionary with symbolic numeric leaves; the unit strings and the use-time ratio are the ones
    every packaged archetype carries (the code asserts them: a different unit is an AssertionError, outside this contract)"""
    fam = o.family
    leaf = lambda n: PyNum(z3.Real(f"{fam}.response.{n}"))
    v.value = SDict({"verbose": SDict({"memory": SDict({"value": leaf("memory"), "unit": "GB"}), "vcpu": SDict({"value": leaf("vcpu")}),
                                       "avg_power": SDict({"value": leaf("avg_power"), "unit": "W"}),
                                       "use_time_ratio": SDict({"value": PyNum(z3.IntVal(1))})}),
                     "impacts": SDict({"gwp": SDict({"embedded": SDict({"value": leaf("gwp_embedded")})})})})


W.SCHEMA.update({("BoaviztaCloudServer", "api_call_response"): ("O", None), ("BoaviztaCloudServer", "carbon_footprint_fabrication"): ("Q", W.MASS),
                 ("BoaviztaCloudServer", "power"): ("Q", W.POWER), ("BoaviztaCloudServer", "ram"): ("Q", DIMLESS), ("BoaviztaCloudServer", "compute"): ("Q", CPU)})
ATTR_INV[("BoaviztaCloudServer", "api_call_response")] = _boavizta_response


def _resp(I, g, *path):
    d = g.raw("api_call_response").value
    for k in path: d = d.d[k]
    return d.r


def _mk_boavizta(fn, path, unit_name, dim):
    @update("BoaviztaCloudServer", fn, kind="Q")
    def f(I, g):
        return ("q", _resp(I, g, *path) * I.units.literal(unit_name).f, dim)
    f.__doc__ = f"{fn[7:]} = response{list(path)} {unit_name}, as packaged (no rounding, no truncation)"
    return f


_mk_boavizta("update_ram", ("verbose", "memory", "value"), "GB", DIMLESS)
_mk_boavizta("update_compute", ("verbose", "vcpu", "value"), "cpu_core", CPU)
_mk_boavizta("update_power", ("verbose", "avg_power", "value"), "W", W.POWER)
_mk_boavizta("update_carbon_footprint_fabrication", ("impacts", "gwp", "embedded", "value"), "kg", W.MASS)


# =====================================================================================================================
# JobBase.update_*_across_usage_patterns: the attribute is the across-patterns sum of the right per-pattern dictionary
# =====================================================================================================================
LOOP_SPECS["efootprint.core.usage.job.JobBase.sum_calculated_attribute_across_usage_patterns"] = _across_loops()


def _mk_across_update(attr, per_up):
    def spec(I, g):
        ups = g.lst("usage_patterns")
        d = g.raw(per_up)
        return FoldMV(I, f"across[{per_up}]", lambda j: mv_of(d.get(I, ups.elem(j))), DIMLESS).at(ups.n)
    spec.__doc__ = f"{attr}(t) = sum over the job's usage patterns of {per_up}[pattern](t)   (each pattern once, by timestamp)"
    UPDATE_SPECS[("JobBase", f"update_{attr}")] = Spec("JobBase", f"update_{attr}", attr=attr, spec=spec)
    CONCRETE[("JobBase", f"update_{attr}")] = ["Job"]


for _a, _d in (("hourly_occurrences_across_usage_patterns", "hourly_occurrences_per_usage_pattern"),
               ("hourly_avg_occurrences_across_usage_patterns", "hourly_avg_occurrences_per_usage_pattern"),
               ("hourly_data_transferred_across_usage_patterns", "hourly_data_transferred_per_usage_pattern"),
               ("hourly_data_stored_across_usage_patterns", "hourly_data_stored_per_usage_pattern")):
    _mk_across_update(_a, _d)
