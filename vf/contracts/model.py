"""Contracts of the numeric update functions of efootprint/core/** (functional specification of DESIGN.md section 3).

Every spec is written at math level (MV algebra over phys values): what the property statements demand of the
calculated attribute, pointwise at every hour, plus totals where a conservation law is claimed (C03).
`verify_update` executes the real update function symbolically and proves: result == spec, frame (writes exactly its
attribute), schema invariant of the attribute (kind, dimension), label on attach (C07), library preconditions (same
index for positional operations, non-zero divisors) and callee preconditions at every call site.
"""
from __future__ import annotations
import ast
import z3
from ..sym import *
from ..engine import Engine, SymRaise, Unsupported, Abort, TT
from ..interp import Interp
from ..extract import extract
from ..ghost import *
from .. import world as W
from . import explainable as X

HOUR_S = 3600
REPO_SPECS = {}      # qualified name -> functional contract used at call sites
UPDATE_SPECS = {}    # (class, function) -> Spec
PRE = {}


class G:
    """accessor used by specs: reads symbolic attributes of a model object at math level"""
    def __init__(self, I, o):
        self.I, self.o, self.w = I, o, I.world

    def raw(self, attr):
        return self.I.model_getattr(self.o, attr)

    def q(self, attr):
        """phys of a quantity-valued attribute (precondition: it is a quantity, not Empty)"""
        v = self.raw(attr)
        if isinstance(v, ExplU):
            self.I.require(f"{attr} is set (not Empty)", z3.Not(v.is_empty)); v = v.nonempty
        if not (isinstance(v, Expl) and v.kind == "eq"): raise Unsupported(f"{attr} is not a quantity")
        return v.value.phys

    def mv(self, attr) -> MV:
        return mv_of(self.raw(attr))

    def obj(self, attr):
        return G(self.I, self.raw(attr))

    def lst(self, attr) -> SList:
        return self.raw(attr)


class Spec:
    def __init__(self, cls, fn, attr=None, spec=None, pre=None, loops=None, raises=None, kind="E|H", writes=None, post=None):
        self.cls, self.fn, self.attr = cls, fn, attr if attr is not None else (fn[len("update_"):] if fn.startswith("update_") else None)
        self.spec, self.pre, self.loops, self.raises, self.kind, self.post = spec, pre, loops or {}, raises, kind, post
        self.writes = writes


def update(cls, fn, **kw):
    def deco(f):
        UPDATE_SPECS[(cls, fn)] = Spec(cls, fn, spec=f, **kw)
        return f
    return deco


def positive_inputs(I, g, *attrs):
    """validated input invariants (check_input_value_type_positivity_and_unit: quantities are >= 0)"""
    for a in attrs:
        I.eng.assume(g.q(a) >= 0)


# =====================================================================================================================
# compute_nb_avg_hourly_occurrences  (C03: occurrence-hours = occurrences x duration; nothing lost at the edges)
# =====================================================================================================================
QN_AVG = "efootprint.core.usage.compute_nb_occurrences_in_parallel.compute_nb_avg_hourly_occurrences"


def avg_fold(I, src: MV, tag):
    return FoldMV(I, f"avgfold[{tag}]", lambda k: mv_shift(MV(False, src.vec, src.dim), k), src.dim)


def spec_avg(I, starts, duration, tag=None):
    """functional contract: avg(h, d)(t) = sum_{k<floor(D)} h(t-k) + (D-floor(D)) h(t-floor(D)),  D = d in hours;
    total = D * total(h); Empty iff h is Empty or d == 0"""
    if isinstance(starts, ExplU): starts = I.resolve(starts)
    if isinstance(duration, ExplU): duration = I.resolve(duration)
    if duration.kind == "empty": dphys = z3.RealVal(0)
    else:
        I.note_read(duration)
        dphys = duration.value.phys
    if starts.kind == "empty" or I.eng.decide(dphys == 0):
        return X.new_expl(I, "empty", None, "no value", left=starts, right=duration)
    if duration.value.unit.dim != W.TIME: raise SymRaise("DimensionalityError", "event duration")
    I.require("event duration is not negative", dphys >= 0)
    I.note_read(starts)
    src = starts.value
    D = dphys / HOUR_S
    n = floor_i(D); r = D - z3.ToReal(n)
    tag = tag or f"{id(src.vec)}"
    smv = MV(False, src.vec, src.unit.dim)
    F = avg_fold(I, smv, getattr(src.vec, "name", None) or f"v{starts.uid}")
    full = F.at(n)
    rest = mv_scale(mv_shift(smv, n), r)
    rest = MV(r <= 0, rest.vec, rest.dim)
    res = mv_add(full, rest)
    vec = Vec(res.vec.inidx, res.vec._val, total=None if src.vec.total is None else D * src.vec.total)
    return X.new_expl(I, "ehq", DF(vec, src.unit), None, left=starts, right=duration, operator="hourly occurrences average")


REPO_SPECS[QN_AVG] = spec_avg


def loops_avg(I, starts):
    src = starts.value
    smv = MV(False, src.vec, src.unit.dim)
    F = avg_fold(I, smv, getattr(src.vec, "name", None) or f"v{starts.uid}")
    def loop0(ctx):
        def view(i):
            f = F.at(i)
            d = {"nb_avg_hourly_occurrences_in_parallel": Opt(i <= 0, DF(f.vec, src.unit))}
            lem = [z3.Implies(i >= 0, z3.And(f.vec.total == z3.ToReal(i) * src.vec.total, z3.Implies(i >= 1, z3.Not(f.is_empty))))]
            d["__lemma__"] = lem
            return d
        return view
    return {0: loop0}


SERVERS = ["Server", "GPUServer", "BoaviztaCloudServer"]
JOBS = ["Job", "WebApplicationJob", "VideoStreamingJob", "GenAIJob"]
CONCRETE = {}


def concrete(*classes):
    def deco(f):
        for key, sp in UPDATE_SPECS.items():
            if sp.spec is f: CONCRETE[key] = list(classes)
        return f
    return deco


# =====================================================================================================================
# InfraHardware / ServerBase
# =====================================================================================================================
@concrete(*SERVERS, "Storage")
@update("InfraHardware", "update_instances_fabrication_footprint")
def s_fab(I, g):
    """Fab(t) = cff * nb(t) * 1h / lifespan   (C12: proportional to cff and 1/lifespan; C02 finite: lifespan != 0)"""
    positive_inputs(I, g, "carbon_footprint_fabrication", "lifespan")
    I.require("lifespan is not zero", g.q("lifespan") != 0)
    return mv_scale(g.mv("nb_of_instances"), g.q("carbon_footprint_fabrication") * HOUR_S / g.q("lifespan"), W.MASS)


@concrete(*SERVERS, "Storage")
@update("InfraHardware", "update_energy_footprint")
def s_ef(I, g):
    """EF(t) = E(t) * carbon intensity that applies to the object (server: its own; storage: its server's)"""
    aci = g.raw("average_carbon_intensity")
    if isinstance(aci, ExplU): aci = I.resolve(aci)
    if aci.kind == "empty":
        return MV(True, EMPTY_VEC, W.MASS)
    return mv_scale(g.mv("instances_energy"), aci.value.phys, W.MASS)


@concrete(*SERVERS)
@update("ServerBase", "update_instances_energy")
def s_server_energy(I, g):
    """E(t) = idle*PUE*1h*nb(t) + (power-idle)*PUE*1h*raw(t)"""
    idle, power, pue = g.q("idle_power"), g.q("power"), g.q("power_usage_effectiveness")
    return mv_add(mv_scale(g.mv("nb_of_instances"), idle * pue * HOUR_S, W.ENERGY),
                  mv_scale(g.mv("raw_nb_of_instances"), (power - idle) * pue * HOUR_S, W.ENERGY))


def _server_compute_dim(I, g):
    c = g.raw("compute")
    if isinstance(c, ExplU): c = c.nonempty
    return c.value.unit.dim


def _jobs_hook(I, owner, lst):
    """jobs of a server express compute in the server's compute dimension (cpu_core / gpu): input invariant"""
    if I.world.issub(owner.cls, "ServerBase"):
        lst.elem_dims["compute_needed"] = _server_compute_dim(I, G(I, owner))


def need_fold(I, g, resource):
    jobs = g.lst("jobs")
    dim = DIMLESS if resource == "ram" else _server_compute_dim(I, g)
    def term(j):
        gj = G(I, jobs.elem(j))
        return mv_scale(gj.mv("hourly_avg_occurrences_across_usage_patterns"), gj.q(f"{resource}_needed"), dim)
    return FoldMV(I, f"need[{resource}]", term, dim, idx_name="need.idx"), jobs


def _need_loops():
    def loop0(ctx):
        I = ctx.interp
        resource = ctx.env["resource"]
        F, jobs = need_fold(I, G(I, ctx.env["self"]), resource)
        def view(i): return {"hour_by_hour_resource_needs": mv_to_explu(F.at(i))}
        view.commutative = True
        return view
    return {0: loop0}


def _mk_need(resource):
    @concrete(*SERVERS)
    @update("ServerBase", f"update_hour_by_hour_{resource}_need")
    def s_need(I, g):
        """need_R(t) = sum_job avgocc_across_job(t) * R_job   (C03: each job's load counted once, by timestamp)"""
        F, jobs = need_fold(I, g, resource)
        return F.at(jobs.n)
    return s_need


_mk_need("ram"); _mk_need("compute")


def _mk_occupied(resource, label):
    @concrete(*SERVERS)
    @update("ServerBase", f"update_occupied_{resource}_per_instance", kind="Q")
    def s_occ(I, g):
        """occupied_R = base_R + sum over installed services of their base_R  (C17: service base consumption added to the server's)"""
        sv = g.lst("installed_services")
        dim = DIMLESS if resource == "ram" else _server_compute_dim(I, g)
        sv.elem_dims[f"base_{resource}_consumption"] = dim
        def term(j):
            e = sv.elem(j)
            v = I.model_getattr(e, f"base_{resource}_consumption")
            if isinstance(v, ExplU): return z3.If(v.is_empty, z3.RealVal(0), v.nonempty.value.phys)
            return v.value.phys
        fq = FoldQ(I, f"occupied[{resource}]", term)
        return ("q", g.q(f"base_{resource}_consumption") + fq.at(sv.n), dim)
    return s_occ


_mk_occupied("ram", "RAM"); _mk_occupied("compute", "CPU")


def _mk_available(resource):
    @concrete(*SERVERS)
    @update("ServerBase", f"update_available_{resource}_per_instance", kind="Q")
    def s_av(I, g):
        """available_R = R * utilisation - occupied_R ; raises ValueError iff negative (C04/C15)"""
        dim = DIMLESS if resource == "ram" else _server_compute_dim(I, g)
        a = g.q(resource) * g.q("server_utilization_rate") - g.q(f"occupied_{resource}_per_instance")
        if I.eng.decide(a < 0): raise SymRaise("ValueError", "capacity exceeded")
        return ("q", a, dim)
    return s_av


_mk_available("ram"); _mk_available("compute")


def _need_invariant(resource):
    def hook(I, owner, value):
        """consistent-state invariant: the need series has the index / emptiness of the fold over the server's jobs"""
        F, jobs = need_fold(I, G(I, owner), resource)
        f = F.at(jobs.n)
        I.eng.assume(value.is_empty == f.is_empty)
        v = value.nonempty.value.vec
        I.add_universal(lambda t: z3.Implies(z3.Not(value.is_empty), v.inidx(t) == f.vec.inidx(t)))
    return hook


ATTR_INV = {("ServerBase", "hour_by_hour_ram_need"): _need_invariant("ram"),
            ("ServerBase", "hour_by_hour_compute_need"): _need_invariant("compute")}


@concrete(*SERVERS)
@update("ServerBase", "update_raw_nb_of_instances")
def s_raw(I, g):
    """raw(t) = max(need_ram(t)/available_ram, need_compute(t)/available_compute)"""
    ar, ac = g.q("available_ram_per_instance"), g.q("available_compute_per_instance")
    I.require("available RAM per instance is not zero", ar != 0)
    I.require("available compute per instance is not zero", ac != 0)
    r, c = g.mv("hour_by_hour_ram_need"), g.mv("hour_by_hour_compute_need")
    vec = Vec(r.vec.inidx, lambda t: z3.If(r.vec.val(t) / ar >= c.vec.val(t) / ac, r.vec.val(t) / ar, c.vec.val(t) / ac))
    return MV(r.is_empty, vec, DIMLESS)


def _post_covers_raw(I, g, res, qual):
    """C04: at every hour the number of instances is at least the raw need"""
    if isinstance(res, ExplU): res = I.resolve(res)
    raw = g.mv("raw_nb_of_instances")
    if res.kind == "ehq":
        I.eng.oblige(f"{qual}/C04: nb_of_instances(t) >= raw_nb_of_instances(t)",
                     z3.Implies(z3.And(z3.Not(raw.is_empty), raw.vec.inidx(TT)), res.value.vec.val(TT) >= raw.vec.val(TT)))


def _mk_nb(variant):
    def s_nb(I, g):
        raw = g.mv("raw_nb_of_instances")
        if variant == "autoscaling":
            return mv_map(raw, ceil_r)
        if variant == "serverless":
            return raw
        # on-premise
        fixed = g.raw("fixed_nb_of_instances")
        rawx = g.raw("raw_nb_of_instances")
        if I.eng.decide(raw.is_empty): return MV(True, EMPTY_VEC, DIMLESS)
        from ..interp import Series
        m = I.series_method(Series(DF(raw.vec, Unit(DIMLESS, 1.0))), "max", [], {})
        peak = ceil_r(m.phys)
        if isinstance(fixed, ExplU) and not I.eng.decide(fixed.is_empty) or isinstance(fixed, Expl) and fixed.kind == "eq":
            f = (fixed.nonempty if isinstance(fixed, ExplU) else fixed).value.phys
            if I.eng.decide(peak > f): raise SymRaise("ValueError", "fixed number of instances exceeded")
            return MV(False, Vec(raw.vec.inidx, lambda t: f), DIMLESS)
        return MV(False, Vec(raw.vec.inidx, lambda t: peak), DIMLESS)
    s_nb.__doc__ = "nb(t): serverless raw(t) | autoscaling ceil(raw(t)) | on-premise constant ceil(max raw), or the fixed count if it covers the peak, else ValueError"
    return s_nb


for _v in ("autoscaling", "serverless", "on-premise"):
    UPDATE_SPECS[("ServerBase", "update_nb_of_instances", _v)] = Spec("ServerBase", "update_nb_of_instances", spec=_mk_nb(_v), post=_post_covers_raw)
    CONCRETE[("ServerBase", "update_nb_of_instances", _v)] = list(SERVERS)


LOOP_SPECS = {"efootprint.core.hardware.server_base.ServerBase.compute_hour_by_hour_resource_need": _need_loops()}
