"""Harness: symbolic execution of the real update functions against the contracts of `model.py`."""
from __future__ import annotations
import z3
from ..sym import *
from ..engine import Engine, SymRaise, Unsupported, Abort, TT
from ..interp import Interp
from ..extract import extract
from ..ghost import *
from .. import world as W
from . import explainable as X
from . import model as M


def all_specs(world):
    s = dict(X.SPECS)
    s.update(M.REPO_SPECS)
    return s


def equiv_mv(I, got, want: MV, name):
    eng = I.eng
    if isinstance(got, ExplU): got = I.resolve(got)
    if not isinstance(got, Expl):
        eng.oblige(f"{name}/result kind", False); return
    if got.kind == "empty":
        eng.oblige(f"{name}/result is Empty only when the specification is", want.is_empty); return
    if got.kind != "ehq":
        eng.oblige(f"{name}/result kind", False); return
    eng.oblige(f"{name}/result is Empty when the specification is", z3.Not(want.is_empty))
    if not eng.feasible([z3.Not(want.is_empty)]): return
    saved = list(eng.run.pc)
    eng.assume(z3.Not(want.is_empty))
    d = got.value
    if want.dim is not None:
        eng.oblige(f"{name}/dimension", d.unit.dim == want.dim)
    eng.oblige(f"{name}/index", d.vec.inidx(TT) == want.vec.inidx(TT))
    eng.oblige(f"{name}/pointwise value", z3.Implies(want.vec.inidx(TT), d.vec.val(TT) == want.vec.val(TT)))
    if want.vec.total is not None:
        if d.vec.total is None: eng.undecided(f"{name}/total", "result total not structurally determined")
        else: eng.oblige(f"{name}/total", d.vec.total == want.vec.total)
    eng.run.pc[:] = saved


def equiv_q(I, got, want_phys, dim, name):
    eng = I.eng
    if isinstance(got, ExplU): got = I.resolve(got)
    if not (isinstance(got, Expl) and got.kind == "eq"):
        eng.oblige(f"{name}/result kind", False); return
    eng.oblige(f"{name}/dimension", got.value.unit.dim == dim)
    eng.oblige(f"{name}/value", got.value.phys == want_phys)


def check_frame(I, o, attr, name):
    written = [n for n, _ in o.writes]
    I.eng.oblige(f"{name}/frame: writes exactly its own attribute ({attr})", all(w == attr for w in written) and len(written) >= 1, kind="frame")


def check_model_untouched(I, written_attr, name):
    """C18: computing never changes the physical value of anything held by the model except the attribute being updated"""
    for e, snap in I.eng.run.cache.get("model_values", []):
        if e.kind == "eq":
            if e.value.phys is snap: continue
            I.eng.oblige(f"{name}/frame: {e.label.text} keeps its physical value", e.value.phys == snap, kind="frame")
        else:
            v = e.value.vec
            if v is snap: continue
            I.eng.oblige(f"{name}/frame: {e.label.text} keeps its index", v.inidx(TT) == snap.inidx(TT), kind="frame")
            I.eng.oblige(f"{name}/frame: {e.label.text} keeps its physical values", z3.Implies(snap.inidx(TT), v.val(TT) == snap.val(TT)), kind="frame")


def check_completeness(I, res, name):
    """C08 completeness, straight-line rules: every model value whose content the rule used is recorded as a direct ancestor
    of the result (ghost read-set vs the ancestors collected by ExplainableObject.__init__).  Rules with loops over symbolic
    lists are covered by the bounded perturbation check instead (their accumulators are havocked to specification views)."""
    if I.eng.run.cache.get("symbolic_loops"): return
    if isinstance(res, ExplU): res = I.resolve(res)
    if not isinstance(res, Expl) or res.anc is None: return
    reads = set(I.eng.run.cache.get("reads", set()))
    missing = sorted(str(r) for r in reads if r not in res.anc and r != res.attached)
    I.eng.oblige(f"{name}/completeness: every model value read is a recorded ancestor of the result" + (f" (missing: {missing[:3]})" if missing else ""),
                 not missing, kind="post")


def check_reads(I, world, cname, attr, name):
    """C18: an update rule only reads inputs, earlier calculated attributes of the same object, or calculated
    attributes of classes strictly earlier in the canonical computation order"""
    reads = I.eng.run.cache.get("attr_reads", [])
    own = world.calculated_attributes(cname) if attr in world.calculated_attributes(cname) else None
    for (rc, fam, ra) in reads:
        calc = world.calculated_attributes(rc)
        if ra not in calc: continue
        if fam == "self":
            if own is None: continue
            ok = ra in own and own.index(ra) < own.index(attr)
            I.eng.oblige(f"{name}/order: reads own attribute {ra} computed earlier", ok, kind="order")
        else:
            def rank(c):
                for i, k in enumerate(world.canonical_order):
                    if world.issub(c, k): return i
                return None
            r1, r2 = rank(rc), rank(cname)
            ok = r1 is not None and r2 is not None and r1 < r2
            I.eng.oblige(f"{name}/order: reads {rc}.{ra} of a class earlier in the canonical order", ok, kind="order")


def verify_update(world, units, spec: M.Spec, concrete_cls=None, engine_kw=None, variant=None):
    cname = concrete_cls or spec.cls
    m = world.find_member(cname, spec.fn)
    if m is None: raise KeyError(f"{cname}.{spec.fn}")
    k, mod, fn = m
    k_ = k
    qual = f"{mod}.{k}.{spec.fn}"
    ex = extract(qual)
    is_prop = any(isinstance(d, __import__("ast").Name) and d.id == "property" for d in fn.decorator_list)
    eng = Engine(**(engine_kw or {}))
    fnname = f"{qual} [self: {cname}{', ' + variant if variant else ''}]"

    def thunk(eng_):
        I = Interp(eng_, units, specs=all_specs(world), world=world)
        world.list_hooks = {("ServerBase", "jobs"): M._jobs_hook, ("UsagePattern", "devices"): M._devices_hook}
        world.attr_invariants = M.ATTR_INV
        world.loop_specs = M.LOOP_SPECS
        world.specs = {k: v for k, v in M.WORLD_SPECS.items() if k != (k_, spec.fn)}
        try:
            o = world.new_obj(cname, "self")
            o.variant = variant
            g = M.G(I, o)
            extra0 = spec.spec.extra_args(I, world) if hasattr(spec.spec, "extra_args") else []
            for pn, pv in zip([a.arg for a in ex.node.args.args[1:]], extra0):
                eng_.run.cache["arg:" + pn] = pv
            I.phase = "spec"
            try:
                want = ("ret", spec.spec(I, g))
            except SymRaise as e:
                want = ("raise", e.exc)
            I.phase = "body"
            loops = spec.loops(I, g) if callable(spec.loops) else spec.loops
            extra = extra0
            try:
                if not loops: loops = M.LOOP_SPECS.get(qual)
                rv_ = I.exec_function(ex.node, [o] + list(extra), loop_specs=loops, qualname=qual)
                got = ("ret", rv_)
            except SymRaise as e:
                got = ("raise", e.exc)
            if got[0] != want[0]:
                eng_.oblige(f"{qual}/outcome: body {got[0]}s{' ' + got[1] if got[0] == 'raise' else ''}, contract {want[0]}s"
                            f"{' ' + want[1] if want[0] == 'raise' else ''}", False)
                return
            if got[0] == "raise":
                eng_.oblige(f"{qual}/raises {want[1]}", got[1] == want[1])
                eng_.oblige(f"{qual}/frame: nothing written when raising", len(o.writes) == 0, kind="frame")
                return
            if spec.attr:
                check_frame(I, o, spec.attr, qual)
                check_reads(I, world, cname, spec.attr, qual)
                res = o.attrs.get(spec.attr)
            else:
                eng_.oblige(f"{qual}/frame: a property writes nothing", len(o.writes) == 0, kind="frame")
                res = got[1]
            w = want[1]
            if isinstance(w, MV): equiv_mv(I, res, w, qual)
            elif isinstance(w, tuple) and w[0] == "q": equiv_q(I, res, w[1], w[2], qual)
            elif w is None: pass
            elif isinstance(w, KDict): I.equiv(res, w, qual)
            else: raise Unsupported(f"spec result {type(w).__name__}")
            check_model_untouched(I, spec.attr, qual)
            check_completeness(I, res, qual)
            lit = world.schema_lookup(W.UNIT_INV, cname, spec.attr)
            if lit is not None:
                r2 = I.resolve(res) if isinstance(res, ExplU) else res
                if isinstance(r2, Expl) and r2.kind == "ehq":
                    eng_.oblige(f"{qual}/unit invariant: result is expressed in {lit}", rv(r2.value.unit.factor) == world.units.literal(lit).f)
            if spec.post: spec.post(I, g, res, qual)
            # cover: this path is reachable (vacuity guard)
            eng_.obligations.append(_cover(eng_, qual))
        except Unsupported as e:
            eng_.undecided(f"{fnname}/unsupported", str(e))

    eng.explore(thunk, fnname)
    return ex.info(), eng


def _cover(eng, qual):
    from ..engine import Obligation
    return Obligation(f"{qual}/cover", list(eng.run.defs) + list(eng.run.pc), z3.BoolVal(False), "cover", eng.fn, tuple(eng.run.taken))


def verify_avg(world, units, engine_kw=None):
    """compute_nb_avg_hourly_occurrences against spec_avg, for every kind of (starts, duration)"""
    from .explainable_verify import mk_operand, equiv_full, D_A, D_B
    ex = extract(M.QN_AVG)
    eng = Engine(**(engine_kw or {}))
    for sk in ("empty", "ehq"):
        for dk, dd in (("eq", W.TIME), ("empty", W.TIME), ("eq", W.MASS)):
            fn = f"{M.QN_AVG} [starts={sk}, duration={dk}{'' if dd == W.TIME else '/wrong dimension'}]"
            def thunk(eng_, sk=sk, dk=dk, dd=dd):
                I = Interp(eng_, units, specs=all_specs(world), world=world)
                try:
                    def mk():
                        return (mk_operand(sk, "starts", DIMLESS, attached=("up", "utc_hourly_usage_journey_starts")),
                                mk_operand(dk, "dur", dd, attached=("uj", "duration")))
                    s1, d1 = mk(); s2, d2 = mk()
                    for x in (s1, d1):
                        if x.kind in ("eq", "ehq"): eng_.assume(x.value.unit.f > 0)
                    I.phase = "spec"
                    try: want = ("ret", M.spec_avg(I, s2, d2))
                    except SymRaise as e: want = ("raise", e.exc)
                    I.phase = "body"
                    loops = M.loops_avg(I, s1) if sk == "ehq" else {}
                    try: got = ("ret", I.exec_function(ex.node, [s1, d1], loop_specs=loops, qualname=M.QN_AVG))
                    except SymRaise as e: got = ("raise", e.exc)
                    if got[0] != want[0]:
                        eng_.oblige(f"{M.QN_AVG}/outcome: body {got}, contract {want}", False); return
                    if got[0] == "raise":
                        eng_.oblige(f"{M.QN_AVG}/raises {want[1]}", got[1] == want[1]); return
                    equiv_full(I, got[1], want[1], {id(s2): s1, id(d2): d1}, M.QN_AVG)
                    eng_.obligations.append(_cover(eng_, M.QN_AVG))
                except Unsupported as e:
                    eng_.undecided(f"{fn}/unsupported", str(e))
            eng.explore(thunk, fn)
    return ex.info(), eng
