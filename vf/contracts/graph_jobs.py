"""Proof-tier jobs on the dependency-graph layer of ExplainableObject (C08 / C05 / C01):

  graph:add_child      ExplainableObject.add_child_to_direct_children_with_id
  graph:remove_child   ExplainableObject.remove_child_from_direct_children_with_id
  graph:set_container  ExplainableObject.set_modeling_obj_container  (callers of the two above: checked against their
                       CONTRACTS, not their bodies) + ObjectLinkedToModelingObj.set_modeling_obj_container (inlined: real body)

Abstract view of a node's `direct_children_with_id`: the SET of ids it lists (has(node, id)), well-formed when no id is
listed twice.  The two list functions are proved to refine  add: has' = has U {id(child)}  /  remove: has' = has \\ {id(child)}
and to preserve well-formedness and the order of the other entries; set_modeling_obj_container is then proved, over a ghost
heap has(node, id) updated by those contracts, to leave both ends of every edge in agreement:
   new container given   ->  every recorded ancestor lists the value under its NEW id
   detached (None)       ->  no recorded ancestor lists it any more under its OLD id
   nothing else changes (other ids, other nodes).

Encoding: nodes and containers are integers (identities); id(value) = IDF(attribute name, container) is an uninterpreted
function (the real `id` property formats exactly these two, and raises without a container: assumption A-ID)."""
from __future__ import annotations
import ast
import z3
from ..sym import *
from ..engine import Engine, Obligation, SymRaise, Unsupported, Abort, Run
from ..interp import Interp, BoundMethod
from ..extract import extract, class_node

I_ = z3.IntSort(); B_ = z3.BoolSort()
BASE = "efootprint.abstract_modeling_classes.explainable_object_base_class"
OLM = "efootprint.abstract_modeling_classes.object_linked_to_modeling_obj"
IDF = z3.Function("IDF", I_, I_, I_)            # id of a value held as attribute `a` of container `c`


def list_jobs():
    return [("graph:add_child", "graph"), ("graph:remove_child", "graph"), ("graph:set_container", "graph"),
            ("graph:ancestors_to_child", "graph"), ("graph:init_ancestors", "graph")]


def _member(qualcls, name):
    mod, cls = qualcls.rsplit(".", 1)
    node = class_node(mod, cls)
    return next((n for n in node.body if isinstance(n, ast.FunctionDef) and n.name == name), None)


class GCont:
    """a ModelingObject seen only through its identity"""
    def __init__(self, cid): self.cid = cid
    def vf_getattr(self, I, name):
        if name == "id": return PyNum(self.cid)
        if name == "name": return Label(True)
        raise Unsupported(f"container attribute {name}")
    def vf_compare(self, I, other):
        if isinstance(other, GCont): return self.cid == other.cid
        return False


class GHeap:
    """ghost: has(node, id) <=> node lists a child with that id"""
    def __init__(self, has): self.has = has
    def vf_assign(self, val): self.has = val.has
    def vf_equiv(self, I, got, name):
        a, x = z3.Int("A!heap"), z3.Int("X!heap")        # skolem node / id
        I.eng.oblige(f"{name}/pointwise", got.has(a, x) == self.has(a, x), kind="inv")


class GNode:
    """an ExplainableObject seen by the graph layer: identity `nid`, attributes in `attrs`; methods and properties come from the
    REAL class source, except the callee contracts in CONTRACTS (modular verification) and the `id` property (A-ID)"""
    CLASSES = [f"{BASE}.ExplainableObject", f"{OLM}.ObjectLinkedToModelingObj"]

    def __init__(self, nid, attrs, heap=None, contracts=True):
        self.nid, self.attrs, self.heap, self.contracts = nid, attrs, heap, contracts

    def find(self, name, after=None):
        classes = self.CLASSES if after is None else self.CLASSES[self.CLASSES.index(after) + 1:]
        for qc in classes:
            fn = _member(qc, name)
            if fn is not None: return qc, fn
        return None

    def vf_getattr(self, I, name):
        if name == "id":
            c = self.attrs["modeling_obj_container"]
            if isinstance(c, Opt): c = I.resolve_opt(c)
            if c is NONE: raise SymRaise("ValueError", "value without container has no id")
            return PyNum(IDF(self.attrs["attr_name_code"], c.cid))
        if name in self.attrs: return self.attrs[name]
        m = self.find(name)
        if m is None: raise Unsupported(f"graph node attribute {name}")
        qc, fn = m
        if any(isinstance(d, ast.Name) and d.id == "property" for d in fn.decorator_list):
            return I.exec_function(fn, [self], qualname=f"{qc}.{name}")
        return BoundMethod(self, name)

    def vf_setattr(self, I, name, v):
        if isinstance(v, Opt): v = I.resolve_opt(v)
        if name == "attr_name_in_mod_obj_container":
            self.attrs["attr_name_in_mod_obj_container"] = v
            self.attrs["attr_name_code"] = v.code if isinstance(v, AttrName) else z3.IntVal(-1)
            return
        self.attrs[name] = v

    def vf_call(self, I, name, args, kwargs):
        if self.contracts and name in CONTRACTS:
            return CONTRACTS[name](I, self, *args, **kwargs)
        m = self.find(name)
        if m is None: raise Unsupported(f"graph node method {name}")
        qc, fn = m
        decos = [ast.unparse(d) for d in fn.decorator_list]
        if any(d not in ("staticmethod",) for d in decos): raise Unsupported(f"{qc}.{name} carries decorators {decos}: call convention not modelled")
        return I.exec_function(fn, ([] if "staticmethod" in decos else [self]) + list(args), kwargs, qualname=f"{qc}.{name}")

    def vf_compare(self, I, other):
        return isinstance(other, GNode) and self.nid is other.nid


class AttrName:
    """an attribute name (string) seen through an integer code; truthy"""
    def __init__(self, code): self.code = code
    def vf_compare(self, I, other): return isinstance(other, AttrName) and self.code == other.code


class GSuper:
    """super() inside ExplainableObject: members of the next class in the MRO"""
    def __init__(self, node): self.node = node
    def vf_getattr(self, I, name): return BoundMethod(self, name)
    def vf_call(self, I, name, args, kwargs):
        m = self.node.find(name, after=GNode.CLASSES[0])
        if m is None: raise Unsupported(f"super().{name}")
        qc, fn = m
        return I.exec_function(fn, [self.node] + list(args), kwargs, qualname=f"{qc}.{name}")


class GSuperFactory:
    """the name `super` inside the method under verification"""
    def __init__(self, node): self.node = node
    def vf_invoke(self, I, args, kwargs): return GSuper(self.node)


# ---------------------------------------------------------------------------------------------------- callee contracts
def _child_id(I, child):
    """id of the child as the callee reads it (direct_child.id): requires a container"""
    return child.vf_getattr(I, "id").z


def c_add(I, node, direct_child=None):
    x0 = _child_id(I, direct_child); a0 = node.nid; old = node.heap.has
    node.heap.has = lambda a, x, old=old, a0=a0, x0=x0: z3.If(z3.And(a == a0, x == x0), z3.BoolVal(True), old(a, x))
    return NONE


def c_remove(I, node, direct_child=None):
    x0 = _child_id(I, direct_child); a0 = node.nid; old = node.heap.has
    node.heap.has = lambda a, x, old=old, a0=a0, x0=x0: z3.If(z3.And(a == a0, x == x0), z3.BoolVal(False), old(a, x))
    return NONE


CONTRACTS = {"add_child_to_direct_children_with_id": c_add, "remove_child_from_direct_children_with_id": c_remove}


# ---------------------------------------------------------------------------------------------------- the list functions
def _list_setup(eng):
    n = z3.Int("children.len"); eng.assume(n >= 0)
    S = z3.Function("children.at", I_, I_)           # position -> node identity
    NID = z3.Function("node.id", I_, I_)             # node identity -> its id (every listed child has a container)
    L = QList(n, lambda p: S(p), lambda j: NID(j), "direct_children_with_id")
    p, q = z3.Ints("p q")
    eng.assume(z3.ForAll([p, q], z3.Implies(z3.And(0 <= p, p < q, q < n), NID(S(p)) != NID(S(q)))))    # well-formed: no id twice
    c = z3.Int("child")
    return n, S, NID, L, c


class _ListNode(GNode):
    """node whose children list is concrete-symbolic (QList); the child's id comes from NID"""
    pass


class _Child:
    def __init__(self, lst, c, NID): self.lst, self.c, self.NID = lst, c, NID
    def vf_getattr(self, I, name):
        if name == "id": return PyNum(self.NID(self.c))
        raise Unsupported(f"child attribute {name}")


def _as_qelem(L, c): return QElem(L, c)


def job_add_child(st, rlimit):
    qual = f"{BASE}.ExplainableObject.add_child_to_direct_children_with_id"
    ex = extract(qual)
    eng = Engine(rlimit=rlimit)

    def thunk(eng_):
        I = Interp(eng_, st["units"], specs={}, world=None)
        try:
            n, S, NID, L, c = _list_setup(eng_)
            node = GNode(z3.Int("self"), {"direct_children_with_id": L}, contracts=False)
            I.phase = "body"
            I.exec_function(ex.node, [node, QElem(L, c)], qualname=qual)
            R = node.attrs["direct_children_with_id"]
            if not isinstance(R, QList): eng_.oblige(f"{qual}/children stay a list", False); return
            p, q, k = z3.Ints("p q k")
            at = lambda pp: R.src(pp)
            eng_.oblige(f"{qual}/view: the child's id is listed afterwards", z3.Exists([k], z3.And(0 <= k, k < R.n, NID(at(k)) == NID(c))))
            eng_.oblige(f"{qual}/view: nothing else is added (every listed id was listed before, or is the child's)",
                        z3.ForAll([p], z3.Implies(z3.And(0 <= p, p < R.n), z3.Or(NID(at(p)) == NID(c), z3.Exists([k], z3.And(0 <= k, k < n, S(k) == at(p)))))))
            eng_.oblige(f"{qual}/frame: the former entries keep their positions", z3.And(R.n >= n, z3.ForAll([p], z3.Implies(z3.And(0 <= p, p < n), at(p) == S(p)))))
            eng_.oblige(f"{qual}/well-formed: no id is listed twice afterwards", z3.ForAll([p, q], z3.Implies(z3.And(0 <= p, p < q, q < R.n), NID(at(p)) != NID(at(q)))))
            eng_.oblige(f"{qual}/at most one entry is added", R.n <= n + 1)
            eng_.obligations.append(Obligation(f"{qual}/cover", list(eng_.run.defs) + list(eng_.run.pc), z3.BoolVal(False), "cover", eng_.fn, tuple(eng_.run.taken)))
        except Unsupported as e:
            eng_.undecided(f"{qual}/unsupported", str(e))
    eng.explore(thunk, qual)
    return [(ex.info(), eng)]


def job_remove_child(st, rlimit):
    qual = f"{BASE}.ExplainableObject.remove_child_from_direct_children_with_id"
    ex = extract(qual)
    eng = Engine(rlimit=rlimit)

    def thunk(eng_):
        I = Interp(eng_, st["units"], specs={}, world=None)
        try:
            n, S, NID, L, c = _list_setup(eng_)
            node = GNode(z3.Int("self"), {"direct_children_with_id": L}, contracts=False)
            I.phase = "body"
            I.exec_function(ex.node, [node, QElem(L, c)], qualname=qual)
            R = node.attrs["direct_children_with_id"]
            if not isinstance(R, QList): eng_.oblige(f"{qual}/children stay a list", False); return
            fo = getattr(R, "filter_of", None)
            p0, q0, j0 = z3.Int("p0!"), z3.Int("q0!"), z3.Int("j0!")
            saved = list(eng_.run.pc)
            if fo is not None and fo[0] is L:
                # hand instantiation of the comprehension facts at the skolem points of the goals below
                _, pos, wit, keep = fo
                for pp in (p0, q0):
                    eng_.assume(z3.Implies(z3.And(0 <= pp, pp < R.n), z3.And(0 <= pos(pp), pos(pp) < n, keep(S(pos(pp))))))
                eng_.assume(z3.Implies(z3.And(0 <= p0, p0 < q0, q0 < R.n), pos(p0) < pos(q0)))
                eng_.assume(z3.Implies(z3.And(0 <= j0, j0 < n, keep(S(j0))), z3.And(0 <= wit(j0), wit(j0) < R.n, pos(wit(j0)) == j0)))
                p, q = z3.Ints("p q")
                wf = lambda a_, b_: z3.Implies(z3.And(0 <= a_, a_ < b_, b_ < n), NID(S(a_)) != NID(S(b_)))
                eng_.assume(wf(pos(p0), pos(q0)))
            at = lambda pp: R.src(pp)
            k = z3.Int("k")
            eng_.oblige(f"{qual}/view: the child's id is no longer listed", z3.Implies(z3.And(0 <= p0, p0 < R.n), NID(at(p0)) != NID(c)))
            eng_.oblige(f"{qual}/view: every other id stays listed",
                        z3.Implies(z3.And(0 <= j0, j0 < n, NID(S(j0)) != NID(c)), z3.Exists([k], z3.And(0 <= k, k < R.n, at(k) == S(j0)))))
            eng_.oblige(f"{qual}/view: nothing is added", z3.Implies(z3.And(0 <= p0, p0 < R.n), z3.Exists([k], z3.And(0 <= k, k < n, S(k) == at(p0)))))
            eng_.oblige(f"{qual}/well-formed: no id is listed twice afterwards", z3.Implies(z3.And(0 <= p0, p0 < q0, q0 < R.n), NID(at(p0)) != NID(at(q0))))
            if fo is not None and fo[0] is L:
                eng_.oblige(f"{qual}/frame: the remaining entries keep their relative order", z3.Implies(z3.And(0 <= p0, p0 < q0, q0 < R.n), fo[1](p0) < fo[1](q0)))
            else:
                eng_.undecided(f"{qual}/frame: the remaining entries keep their relative order", "result is not a filter of the former list")
            eng_.run.pc[:] = saved
            eng_.obligations.append(Obligation(f"{qual}/cover", list(eng_.run.defs) + list(eng_.run.pc), z3.BoolVal(False), "cover", eng_.fn, tuple(eng_.run.taken)))
        except Unsupported as e:
            eng_.undecided(f"{qual}/unsupported", str(e))
    eng.explore(thunk, qual)
    return [(ex.info(), eng)]


# ---------------------------------------------------------------------------------------------------- set_modeling_obj_container
def job_set_container(st, rlimit):
    qual = f"{BASE}.ExplainableObject.set_modeling_obj_container"
    ex = extract(qual)
    eng = Engine(rlimit=rlimit)
    from ..ghost import induct

    def thunk(eng_):
        I = Interp(eng_, st["units"], specs={}, world=None)
        try:
            H0 = z3.Function("heap0", I_, I_, B_)
            heap = GHeap(lambda a, x: H0(a, x))
            n = z3.Int("anc.len"); eng_.assume(n >= 0)
            ANC = z3.Function("anc.at", I_, I_)
            old_none, new_none, init_none = z3.Bool("old.none"), z3.Bool("new.none"), z3.Bool("initial.none")
            oldc, newc, initc = z3.Int("old.container"), z3.Int("new.container"), z3.Int("initial.container")
            olda, newa = z3.Int("old.attr"), z3.Int("new.attr")
            me = z3.Int("self")
            anc_nodes = SList(n, lambda i: GNode(ANC(i), {}, heap=heap), "direct_ancestors_with_id")
            label = Label(z3.Bool("label.nonempty"))
            node = GNode(me, {"label": label, "modeling_obj_container": Opt(old_none, GCont(oldc)),
                              "attr_name_in_mod_obj_container": Opt(old_none, AttrName(olda)), "attr_name_code": olda,
                              "initial_modeling_obj_container": Opt(init_none, GCont(initc)),
                              "direct_ancestors_with_id": anc_nodes}, heap=heap)
            # IN(i, a): a is among the first i recorded ancestors (ghost, primitive recursion on i; unfolded by hand where needed)
            IN = z3.Function("anc.in", I_, I_, B_)
            def unfold(i, a):
                eng_.assume_def(z3.Not(IN(z3.IntVal(0), a)))
                eng_.assume_def(z3.Implies(i >= 0, IN(i + 1, a) == z3.Or(IN(i, a), ANC(i) == a)))
            A, X = z3.Int("A!heap"), z3.Int("X!heap")
            ids = {}

            def mk_loop(val, which):
                def spec(ctx):
                    h_entry = heap.has            # heap at loop entry (closure captured now)
                    myid = node.vf_getattr(I, "id").z
                    ids[which] = myid
                    def view(i):
                        unfold(i, A)
                        return {"__heap__": GHeap(lambda a, x, i=i: z3.If(z3.And(IN(i, a), x == myid), z3.BoolVal(val), h_entry(a, x)))}
                    view.commutative = True
                    return view
                return spec

            fors = sorted([x for x in ast.walk(ex.node) if isinstance(x, ast.For)], key=lambda x: (x.lineno, x.col_offset))
            kinds = []
            for f_ in fors:
                src = ast.unparse(f_)
                kinds.append("remove" if "remove_child_from_direct_children_with_id" in src else "add" if "add_child_to_direct_children_with_id" in src else "?")
            loop_specs = {k_: mk_loop(kinds[k_] == "add", kinds[k_]) for k_ in range(len(fors)) if kinds[k_] != "?"}
            I.phase = "body"
            I.module_globals = dict(I.module_globals);
            try:
                I.exec_function(ex.node, [node, Opt(new_none, GCont(newc)), Opt(new_none, AttrName(newa))], loop_specs=loop_specs, qualname=qual,
                                ghost={"__heap__": heap, "super": GSuperFactory(node)})
                outcome = "ret"
            except SymRaise as e:
                outcome = "raise:" + e.exc
            has = heap.has
            lab_ok = label.nonempty
            # ---- outcome
            expect_raise = z3.Or(z3.Not(lab_ok), z3.And(z3.Not(old_none), z3.Not(new_none), oldc != newc))
            eng_.oblige(f"{qual}/refused exactly when unlabeled, or already held by another object", expect_raise == z3.BoolVal(outcome != "ret"))
            if outcome != "ret":
                eng_.oblige(f"{qual}/a refused call leaves the children sets untouched", has(A, X) == H0(A, X), kind="frame")
                eng_.obligations.append(Obligation(f"{qual}/cover", list(eng_.run.defs) + list(eng_.run.pc), z3.BoolVal(False), "cover", eng_.fn, tuple(eng_.run.taken)))
                return
            # ---- fields
            c_after = node.attrs["modeling_obj_container"]
            c_after = I.resolve_opt(c_after) if isinstance(c_after, Opt) else c_after
            eng_.oblige(f"{qual}/the container is the one given", new_none if c_after is NONE else z3.And(z3.Not(new_none), c_after.cid == newc))
            # ---- both ends of every edge agree (C08), at a skolem ancestor position p0
            p0 = z3.Int("p0!anc")
            saved = list(eng_.run.pc)
            eng_.assume(z3.And(0 <= p0, p0 < n))
            # lemma by induction on i:  p0 < i  ->  IN(i, ANC(p0))
            a0 = ANC(p0)
            eng_.assume_def(z3.Not(IN(z3.IntVal(0), a0)))
            def P(i):
                return z3.Implies(p0 < i, IN(i, a0))
            key = ("induct", "anc-in")
            eng_.oblige("lemma/every recorded ancestor is in the processed set/base", P(z3.IntVal(0)), kind="lemma")
            k_ = eng_.fresh("k_ind", I_)
            sv2 = list(eng_.run.pc)
            eng_.assume(k_ >= 0); eng_.assume(P(k_)); eng_.assume(IN(k_ + 1, a0) == z3.Or(IN(k_, a0), ANC(k_) == a0))
            eng_.oblige("lemma/every recorded ancestor is in the processed set/step", P(k_ + 1), kind="lemma")
            eng_.run.pc[:] = sv2
            eng_.assume(P(n))
            new_id = IDF(newa, newc); old_id = IDF(olda, oldc)
            eng_.oblige(f"{qual}/C08: attached -> every recorded ancestor lists the value under its new id",
                        z3.Implies(z3.Not(new_none), has(a0, new_id)))
            eng_.oblige(f"{qual}/C08: detached -> no recorded ancestor lists the value under its old id any more",
                        z3.Implies(z3.And(new_none, z3.Not(old_none)), z3.Not(has(a0, old_id))))
            eng_.oblige(f"{qual}/C08: moved to another attribute -> the old id is no longer listed by a recorded ancestor",
                        z3.Implies(z3.And(z3.Not(new_none), z3.Not(old_none), old_id != new_id), z3.Not(has(a0, old_id))))
            eng_.run.pc[:] = saved
            # ---- frame
            eng_.oblige(f"{qual}/frame: ids other than the value's old and new ids are untouched",
                        z3.Implies(z3.And(z3.Or(old_none, X != old_id), z3.Or(new_none, X != new_id)), has(A, X) == H0(A, X)), kind="frame")
            unfold(n, A)
            eng_.oblige(f"{qual}/frame: nodes that are not recorded ancestors are untouched", z3.Implies(z3.Not(IN(n, A)), has(A, X) == H0(A, X)), kind="frame")
            eng_.oblige(f"{qual}/frame: neither previously held nor newly held -> nothing changes", z3.Implies(z3.And(old_none, new_none), has(A, X) == H0(A, X)), kind="frame")
            eng_.obligations.append(Obligation(f"{qual}/cover", list(eng_.run.defs) + list(eng_.run.pc), z3.BoolVal(False), "cover", eng_.fn, tuple(eng_.run.taken)))
        except Unsupported as e:
            eng_.undecided(f"{qual}/unsupported", str(e))
    eng.explore(thunk, qual)
    info = ex.info()
    return [(info, eng)]


# ---------------------------------------------------------------------------------------------------- recorded ancestors
class MaybeNone:
    """an attribute that is None or an object, known only through a formula"""
    def __init__(self, is_none): self.vf_is_none = is_none


def _anc_list(eng, tag):
    """a recorded-ancestor list: positions -> node identities, ids by NID, attachment by HASC; well-formed: no id twice"""
    n = z3.Int(f"{tag}.len"); eng.assume(n >= 0)
    S = z3.Function(f"{tag}.at", I_, I_)
    NID = z3.Function("node.id", I_, I_); HASC = z3.Function("node.attached", I_, B_)
    L = QList(n, lambda p: S(p), lambda j: NID(j), tag)
    L.elem_attr = lambda I, j, name: MaybeNone(z3.Not(HASC(j))) if name == "modeling_obj_container" else (_ for _ in ()).throw(Unsupported(f"ancestor attribute {name}"))
    p, q = z3.Ints("p q")
    eng.assume(z3.ForAll([p, q], z3.Implies(z3.And(0 <= p, p < q, q < n), NID(S(p)) != NID(S(q)))))
    return n, S, NID, HASC, L


def job_ancestors_to_child(st, rlimit):
    qual = f"{BASE}.ExplainableObject.return_direct_ancestors_with_id_to_child"
    ex = extract(qual)
    eng = Engine(rlimit=rlimit)

    def thunk(eng_):
        I = Interp(eng_, st["units"], specs={}, world=None)
        try:
            n, S, NID, HASC, L = _anc_list(eng_, "anc")
            none = z3.Bool("container.none")
            node = GNode(z3.Int("self"), {"modeling_obj_container": Opt(none, GCont(z3.Int("container"))), "direct_ancestors_with_id": L}, contracts=False)
            I.phase = "body"
            res = I.exec_function(ex.node, [node], qualname=qual)
            attached = not eng_.decide(none)
            if attached:
                eng_.oblige(f"{qual}/an attached value hands itself (and nothing else) to its children", isinstance(res, list) and len(res) == 1 and res[0] is node)
            else:
                if not isinstance(res, QList): eng_.oblige(f"{qual}/an unattached value hands a list of its recorded ancestors", False); return
                p, q, k, j = z3.Ints("p q k j")
                at = res.src
                eng_.oblige(f"{qual}/only attached recorded ancestors are handed down", z3.ForAll([p], z3.Implies(z3.And(0 <= p, p < res.n), z3.And(HASC(at(p)), z3.Exists([k], z3.And(0 <= k, k < n, S(k) == at(p)))))))
                eng_.oblige(f"{qual}/every attached recorded ancestor is handed down", z3.ForAll([j], z3.Implies(z3.And(0 <= j, j < n, HASC(S(j))), z3.Exists([p], z3.And(0 <= p, p < res.n, at(p) == S(j))))))
                eng_.oblige(f"{qual}/well-formed: no id twice in the list handed down", z3.ForAll([p, q], z3.Implies(z3.And(0 <= p, p < q, q < res.n), NID(at(p)) != NID(at(q)))))
            eng_.obligations.append(Obligation(f"{qual}/cover", list(eng_.run.defs) + list(eng_.run.pc), z3.BoolVal(False), "cover", eng_.fn, tuple(eng_.run.taken)))
        except Unsupported as e:
            eng_.undecided(f"{qual}/unsupported", str(e))
    eng.explore(thunk, qual)
    return [(ex.info(), eng)]


def job_init_ancestors(st, rlimit):
    """ExplainableObject.__init__: the recorded ancestors of a new value are the union of what its parents hand down, each id once"""
    qual = f"{BASE}.ExplainableObject.__init__"
    ex = extract(qual)
    eng = Engine(rlimit=rlimit)

    def thunk(eng_):
        I = Interp(eng_, st["units"], specs={}, world=None)
        try:
            handed = {}
            def mk_parent(tag):
                n, S, NID, HASC, L = _anc_list(eng_, f"handed.{tag}")
                handed[tag] = (n, S, NID, L)
                node_ = GNode(z3.Int(f"parent.{tag}"), {}, contracts=True)
                node_.handed = L
                return node_
            lp, rp = mk_parent("left"), mk_parent("right")
            ln, rn = z3.Bool("left.none"), z3.Bool("right.none")
            me = GNode(z3.Int("self"), {}, contracts=False)
            label = Label(z3.Bool("label.nonempty"))
            I.phase = "body"
            try:
                I.exec_function(ex.node, [me, Opaque("value"), label, Opt(ln, lp), Opt(rn, rp), NONE, NONE], qualname=qual, ghost={"super": GSuperFactory(me)})
                outcome = "ret"
            except SymRaise as e:
                outcome = "raise:" + e.exc
            eng_.oblige(f"{qual}/refused exactly when it has neither label nor parent", z3.And(z3.Not(label.nonempty), ln, rn) == z3.BoolVal(outcome != "ret"))
            if outcome == "ret":
                F_ = me.attrs.get("direct_ancestors_with_id")
                NID = handed["left"][2]
                x, k, p, q = z3.Ints("x!m k p q")
                def ids_of(n_, S_): return z3.Exists([k], z3.And(0 <= k, k < n_, NID(S_(k)) == x))
                want = z3.Or(z3.And(z3.Not(ln), ids_of(handed["left"][0], handed["left"][1])), z3.And(z3.Not(rn), ids_of(handed["right"][0], handed["right"][1])))
                if isinstance(F_, list) and not F_:
                    got = z3.BoolVal(False); wf = z3.BoolVal(True)
                elif isinstance(F_, QList):
                    got = z3.Exists([k], z3.And(0 <= k, k < F_.n, NID(F_.src(k)) == x))
                    wf = z3.ForAll([p, q], z3.Implies(z3.And(0 <= p, p < q, q < F_.n), NID(F_.src(p)) != NID(F_.src(q))))
                else:
                    eng_.oblige(f"{qual}/recorded ancestors are a list", False); return
                # the equivalence is split in its two directions, the comprehension facts instantiated by hand at the skolem positions
                parts = []
                def flat(L_, off):
                    co = getattr(L_, "concat_of", None)
                    if co is not None:
                        flat(co[0], off); flat(co[1], off + co[0].n)
                    elif getattr(L_, "filter_of", None) is not None:
                        parts.append((off, L_))
                if isinstance(F_, QList): flat(F_, z3.IntVal(0))
                def fact_b(R, p_):
                    L0, pos, wit, keep = R.filter_of
                    return z3.Implies(z3.And(0 <= p_, p_ < R.n), z3.And(0 <= pos(p_), pos(p_) < L0.n, keep(L0.src(pos(p_)))))
                def fact_d(R, j_):
                    L0, pos, wit, keep = R.filter_of
                    return z3.Implies(z3.And(0 <= j_, j_ < L0.n, keep(L0.src(j_))), z3.And(0 <= wit(j_), wit(j_) < R.n, pos(wit(j_)) == j_))
                saved = list(eng_.run.pc)
                k0 = z3.Int("k0!")
                if isinstance(F_, QList):
                    eng_.assume(z3.And(0 <= k0, k0 < F_.n, NID(F_.src(k0)) == x))
                    for off, R in parts: eng_.assume(fact_b(R, k0 - off))
                    eng_.oblige(f"{qual}/C08: every recorded ancestor id was handed down by a parent", want)
                    eng_.run.pc[:] = saved
                for tag, none_ in (("left", ln), ("right", rn)):
                    n_, S_ = handed[tag][0], handed[tag][1]
                    k1 = z3.Int(f"k1!{tag}")
                    eng_.assume(z3.And(z3.Not(none_), 0 <= k1, k1 < n_, NID(S_(k1)) == x))
                    for off, R in parts:
                        if R.filter_of[0] is handed[tag][3]: eng_.assume(fact_d(R, k1))
                    eng_.oblige(f"{qual}/C08: every id handed down by the {tag} parent is recorded", got)
                    eng_.run.pc[:] = saved
                eng_.oblige(f"{qual}/C08: no ancestor id is recorded twice", wf)
                ch = me.attrs.get("direct_children_with_id")
                eng_.oblige(f"{qual}/a new value has no children", isinstance(ch, list) and not ch)
                c_ = me.attrs.get("modeling_obj_container")
                eng_.oblige(f"{qual}/a new value is unattached", c_ is NONE)
            eng_.obligations.append(Obligation(f"{qual}/cover", list(eng_.run.defs) + list(eng_.run.pc), z3.BoolVal(False), "cover", eng_.fn, tuple(eng_.run.taken)))
        except Unsupported as e:
            eng_.undecided(f"{qual}/unsupported", str(e))
    eng.explore(thunk, qual)
    return [(ex.info(), eng)]


def c_handed(I, node):
    """contract of return_direct_ancestors_with_id_to_child as seen by a child under construction: a well-formed list (no id twice)"""
    return node.handed


CONTRACTS["return_direct_ancestors_with_id_to_child"] = c_handed


def run(job_id, st, rlimit):
    which = job_id.split(":", 1)[1]
    return {"add_child": job_add_child, "remove_child": job_remove_child, "set_container": job_set_container,
            "ancestors_to_child": job_ancestors_to_child, "init_ancestors": job_init_ancestors}[which](st, rlimit)
