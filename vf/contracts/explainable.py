"""Contracts (functional specifications) of the explainable-object layer
(efootprint/abstract_modeling_classes/explainable_objects.py, C09 / C07).

Each `spec_*` states, on the abstract views, what the property C09 demands of the operation: the same physical result
as unit-aware arithmetic, right dimension, DimensionalityError on incompatible dimensions, operands untouched, Empty
neutral for + and absorbing for *, hourly series combined timestamp by timestamp with missing hours as zero; and, for
C07, the (left_parent, right_parent, operator) triple recorded on the result.  Callers are verified against these
specs; the real method bodies are verified against them in `verify_all` below.
"""
from __future__ import annotations
import z3
from ..sym import *
from ..engine import SymRaise, Unsupported, TT
from ..interp import Interp, Series, KIND_CLASS
from .. import libspec as L

SPECS = {}


def spec(kind, name):
    def deco(f):
        SPECS[(kind, name)] = f
        return f
    return deco


# ------------------------------------------------------------------------------------------------ construction
def as_label(x):
    if isinstance(x, Label): return x
    if x is None or x is NONE: return Label(False)
    if isinstance(x, str): return Label(bool(x), x)
    return Label(True)


def ancestors_to_child(p: Expl):
    """contract of ExplainableObject.return_direct_ancestors_with_id_to_child"""
    if p.attached: return frozenset([p.attached])
    return frozenset(p.anc or ())


def new_expl(I: Interp, kind, value, label=None, left=None, right=None, operator=None, source=None):
    """contract of ExplainableObject.__init__ (+ the type checks of the EQ / EHQ constructors)"""
    left = None if left is NONE else left
    right = None if right is NONE else right
    source = None if source is NONE else source
    if isinstance(left, ExplU): left = I.resolve(left)
    if isinstance(right, ExplU): right = I.resolve(right)
    lab = as_label(label)
    if kind == "eq" and not isinstance(value, Qty):
        raise SymRaise("ValueError", "ExplainableQuantity value must be a Quantity")
    if kind == "ehq" and not isinstance(value, DF):
        raise SymRaise("ValueError", "ExplainableHourlyQuantities value must be a DataFrame")
    if not lab.nonempty and left is None and right is None:
        raise SymRaise("ValueError", "ExplainableObject without parent should have a label")
    if source is not None:
        lab = Label(True, lab.text)
    anc = frozenset()
    for p in (left, right):
        if p is not None:
            if not isinstance(p, Expl): raise Unsupported(f"parent of kind {type(p).__name__}")
            anc |= ancestors_to_child(p)
    e = Expl(kind, value, lab, left, right, operator if operator is not NONE else None, source, anc=anc)
    if kind == "empty":
        e.value = e
    return e


def construct(I: Interp, cname, args, kwargs):
    names = {"EmptyExplainableObject": ["label", "left_parent", "right_parent", "operator"],
             "ExplainableQuantity": ["value", "label", "left_parent", "right_parent", "operator", "source"],
             "ExplainableHourlyQuantities": ["value", "label", "left_parent", "right_parent", "operator", "source"],
             "ExplainableObject": ["value", "label", "left_parent", "right_parent", "operator", "source"],
             "SourceValue": ["value", "source", "label"], "SourceHourlyValues": ["value", "source", "label"],
             "SourceObject": ["value", "source", "label"]}[cname]
    a = dict(zip(names, args)); a.update(kwargs)
    if isinstance(a.get("value"), Opt): a["value"] = I.resolve_opt(a["value"])
    kind = {"EmptyExplainableObject": "empty", "ExplainableQuantity": "eq", "ExplainableHourlyQuantities": "ehq",
            "ExplainableObject": "eo", "SourceValue": "eq", "SourceHourlyValues": "ehq", "SourceObject": "eo"}[cname]
    if cname.startswith("Source"):
        a.setdefault("source", Opaque("source", "HYPOTHESIS")); a.setdefault("label", "unnamed source")
    if kind == "empty":
        a.setdefault("label", "no value")
    return new_expl(I, kind, a.get("value"), a.get("label"), a.get("left_parent"), a.get("right_parent"),
                    a.get("operator"), a.get("source"))


def construct_dict(I, cname, args, kwargs):
    """ExplainableObjectDict(): an empty dictionary (its key list is known once the first key is written)"""
    if args or kwargs: raise Unsupported("ExplainableObjectDict with initial content")
    d = KDict(KeyStub(), None, dom=lambda k: z3.BoolVal(False))
    d.explainable_dict = True       # ExplainableObjectDict.__setitem__ attaches its values to the model: they must carry a label
    return d


SPECS[("ExplainableObjectDict", "__init__")] = construct_dict

for _c in ("EmptyExplainableObject", "ExplainableQuantity", "ExplainableHourlyQuantities", "ExplainableObject",
           "SourceValue", "SourceHourlyValues", "SourceObject"):
    SPECS[(_c, "__init__")] = construct


def is_zero_number(I, x):
    """`isinstance(other, numbers.Number) and other == 0`"""
    return isinstance(x, PyNum) and I.eng.decide(x.r == 0)


def qv(I, e: Expl) -> Qty:
    I.note_read(e); return e.value


def dv(I, e: Expl) -> DF:
    I.note_read(e); return e.value


def empty(I, **kw):
    return new_expl(I, "empty", None, kw.pop("label", "no value"), **kw)


# ------------------------------------------------------------------------------------------------ common
@spec("eq", "set_label")
@spec("ehq", "set_label")
@spec("empty", "set_label")
@spec("eo", "set_label")
def spec_set_label(I, self, new_label):
    lab = as_label(new_label)
    self.label = Label(lab.nonempty or self.source is not None, lab.text)
    return self


# ------------------------------------------------------------------------------------------------ Empty
@spec("empty", "to")
def e_to(I, self, unit): return self


@spec("empty", "check")
def e_check(I, self, s): return True


for _n in ("ceil", "max", "abs", "sum", "copy"):
    def _mk(n):
        def f(I, self): return empty(I, left=self, operator=n)
        return f
    SPECS[("empty", _n)] = _mk(_n)


@spec("empty", "__copy__")
def e_copy(I, self): return new_expl(I, "empty", None, self.label, left=self, operator="copy")


@spec("empty", "generate_explainable_object_with_logical_dependency")
def e_logdep(I, self, cond):
    return new_expl(I, "empty", None, self.label, left=self, right=cond, operator="logically dependent on")


@spec("empty", "iloc_elem")
def e_iloc(I, self): return empty(I, left=self, operator="iloc")


@spec("empty", "__eq__")
def e_eq(I, self, other):
    if isinstance(other, ExplU): other = I.resolve(other)
    if isinstance(other, Expl):
        if other.kind == "empty": return True
        return I.call_method(other, "__eq__", [self], {})
    if isinstance(other, PyNum): return I.eng.decide(other.r == 0)
    return False


@spec("empty", "__round__")
def e_round(I, self, nd): return new_expl(I, "empty", None, self.label, left=self, operator=Label(True))


@spec("empty", "__add__")
@spec("empty", "__radd__")
def e_add(I, self, other):
    if isinstance(other, ExplU): other = I.resolve(other)
    if isinstance(other, Expl):
        if other.kind == "empty": return empty(I, left=self, right=other, operator="+")
        return I.call_method(other, "__add__", [self], {})     # neutral: other + Empty
    if isinstance(other, PyNum) and I.eng.decide(other.r == 0):
        return empty(I, left=self, operator="+ 0")
    raise SymRaise("ValueError", "Empty + non-zero")


@spec("empty", "__sub__")
def e_sub(I, self, other):
    if isinstance(other, ExplU): other = I.resolve(other)
    if isinstance(other, Expl) and other.kind == "empty":
        return empty(I, left=self, right=other, operator="-")
    raise SymRaise("ValueError", "Empty - x")


@spec("empty", "__mul__")
@spec("empty", "__rmul__")
def e_mul(I, self, other):
    if isinstance(other, ExplU): other = I.resolve(other)
    if isinstance(other, Expl):
        if other.kind == "empty": return empty(I, left=self, right=other, operator="*")
        if other.kind in ("eq", "ehq"): return I.call_method(other, "__mul__", [self], {})   # absorbing
        raise SymRaise("ValueError", "Empty * object")
    if isinstance(other, PyNum) and I.eng.decide(other.r == 0): return self
    raise SymRaise("ValueError", "Empty * non-zero")


@spec("empty", "np_compared_with")
def e_npc(I, self, other, comparator):
    if isinstance(other, ExplU): other = I.resolve(other)
    if isinstance(other, Expl) and other.kind == "empty":
        return empty(I, left=self, right=other, operator=Label(True))
    if isinstance(other, Expl) and other.kind == "ehq":
        return I.call_method(other, "np_compared_with", [self, comparator], {})
    raise SymRaise("ValueError", "np_compared_with")


# ------------------------------------------------------------------------------------------------ ExplainableQuantity
@spec("eq", "to")
def q_to(I, self, unit):
    u2 = I.as_unit(unit)
    v = self.value
    if u2.dim != v.unit.dim: raise SymRaise("DimensionalityError", "to")
    self.value = Qty(v.phys, u2)         # in place: phys unchanged, unit tag changes
    return self


@spec("eq", "compare_with_and_return_max")
def q_cmpmax(I, self, other):
    if isinstance(other, ExplU): other = I.resolve(other)
    if isinstance(other, Expl) and other.kind == "eq":
        a, b = qv(I, self), qv(I, other)
        if a.unit.dim != b.unit.dim: raise SymRaise("DimensionalityError", "max")
        if I.eng.decide(a.phys >= b.phys): return new_expl(I, "eq", a, None, self, other, "max")
        return new_expl(I, "eq", b, None, self, other, "max")
    raise SymRaise("ValueError", "compare_with_and_return_max")


@spec("eq", "ceil")
def q_ceil(I, self):
    # C09 "operands keep their physical value": ceil() must not change its receiver -> returns a NEW quantity
    v = qv(I, self)
    return new_expl(I, "eq", Qty(ceil_r(v.mag) * v.unit.f, v.unit), None, left=self, operator="ceil")


@spec("eq", "copy")
def q_copy(I, self):
    v = qv(I, self)
    return new_expl(I, "eq", Qty(v.phys, v.unit), self.label, left=self, operator="duplicate")


@spec("eq", "__copy__")
def q_copy2(I, self):
    v = qv(I, self)
    return new_expl(I, "eq", v, self.label, left=self, operator="duplicate", source=self.source)


def _q_cmp(name, f):
    @spec("eq", name)
    def g(I, self, other):
        if isinstance(other, ExplU): other = I.resolve(other)
        if isinstance(other, Expl) and other.kind == "eq":
            a, b = qv(I, self), qv(I, other)
            if a.unit.dim != b.unit.dim:
                if name == "__eq__": return False       # pint: == between incompatible dimensions is False
                raise SymRaise("DimensionalityError", name)
            return f(a.phys, b.phys)
        if isinstance(other, Expl) and other.kind == "empty":
            return f(qv(I, self).phys, z3.RealVal(0))
        raise SymRaise("ValueError", name)
    return g


_q_cmp("__gt__", lambda a, b: a > b)
_q_cmp("__lt__", lambda a, b: a < b)
_q_cmp("__eq__", lambda a, b: a == b)


def _q_addsub(name, sign):
    @spec("eq", name)
    def g(I, self, other):
        if isinstance(other, ExplU): other = I.resolve(other)
        if is_zero_number(I, other):
            return new_expl(I, "eq", qv(I, self), None, left=self)
        if isinstance(other, Expl) and other.kind == "empty":
            return new_expl(I, "eq", qv(I, self), None, self, other, "+" if sign > 0 else "-")
        if isinstance(other, Expl) and other.kind == "eq":
            a, b = qv(I, self), qv(I, other)
            if a.unit.dim != b.unit.dim: raise SymRaise("DimensionalityError", name)
            return new_expl(I, "eq", Qty(a.phys + sign * b.phys, a.unit), "", self, other, "+" if sign > 0 else "-")
        raise SymRaise("ValueError", name)
    return g


_q_addsub("__add__", 1)
_q_addsub("__sub__", -1)
SPECS[("eq", "__radd__")] = SPECS[("eq", "__add__")]


@spec("eq", "__rsub__")
def q_rsub(I, self, other):
    if isinstance(other, ExplU): other = I.resolve(other)
    if isinstance(other, Expl) and other.kind == "eq":
        a, b = qv(I, other), qv(I, self)
        if a.unit.dim != b.unit.dim: raise SymRaise("DimensionalityError", "rsub")
        return new_expl(I, "eq", Qty(a.phys - b.phys, a.unit), "", other, self, "-")
    raise SymRaise("ValueError", "rsub")


@spec("eq", "__mul__")
@spec("eq", "__rmul__")
def q_mul(I, self, other):
    if isinstance(other, ExplU): other = I.resolve(other)
    if is_zero_number(I, other): return PyNum(z3.IntVal(0))
    if isinstance(other, Expl):
        if other.kind == "empty": return empty(I, left=self, right=other, operator="*")
        if other.kind == "eq":
            a, b = qv(I, self), qv(I, other)
            return new_expl(I, "eq", Qty(a.phys * b.phys, a.unit * b.unit), "", self, other, "*")
        if other.kind == "ehq": return I.call_method(other, "__mul__", [self], {})
    raise SymRaise("ValueError", "mul")


@spec("eq", "__truediv__")
def q_div(I, self, other):
    if isinstance(other, ExplU): other = I.resolve(other)
    if isinstance(other, Expl) and other.kind == "eq":
        a, b = qv(I, self), qv(I, other)
        if I.eng.decide(b.phys == 0): raise SymRaise("ZeroDivisionError", "EQ / 0")
        return new_expl(I, "eq", Qty(a.phys / b.phys, a.unit / b.unit), "", self, other, "/")
    if isinstance(other, Expl) and other.kind == "ehq":
        return I.call_method(other, "__rtruediv__", [self], {})
    raise SymRaise("ValueError", "div")


@spec("eq", "__rtruediv__")
def q_rdiv(I, self, other):
    if isinstance(other, ExplU): other = I.resolve(other)
    if is_zero_number(I, other): return PyNum(z3.IntVal(0))
    if isinstance(other, Expl):
        if other.kind == "empty": return empty(I, left=other, right=self, operator="/")
        if other.kind == "eq":
            a, b = qv(I, other), qv(I, self)
            if I.eng.decide(b.phys == 0): raise SymRaise("ZeroDivisionError", "EQ / 0")
            return new_expl(I, "eq", Qty(a.phys / b.phys, a.unit / b.unit), "", other, self, "/")
        if other.kind == "ehq": return I.call_method(other, "__truediv__", [self], {})
    raise SymRaise("ValueError", "rdiv")


@spec("eq", "__round__")
def q_round(I, self, nd):
    v = qv(I, self)
    return new_expl(I, "eq", Qty(I.round_term(v.mag, nd) * v.unit.f, v.unit), self.label, left=self,
                    operator=Label(True), source=self.source)


# ------------------------------------------------------------------------------------------------ Hourly
@spec("ehq", "to")
def h_to(I, self, unit):
    u2 = I.as_unit(unit)
    d = self.value
    if u2.dim != d.unit.dim: raise SymRaise("DimensionalityError", "to")
    d.unit = u2                          # in place on the (possibly shared) DataFrame: phys unchanged
    return self


@spec("ehq", "__round__")
def h_round(I, self, nd):
    d = dv(I, self)
    f = d.unit.f
    vec = L.vmap(d.vec, lambda x: I.round_term_at(x / f, nd) * f)
    return new_expl(I, "ehq", DF(vec, d.unit), self.label, left=self, operator=Label(True), source=self.source)


@spec("ehq", "return_shifted_hourly_quantities")
def h_shift(I, self, dur):
    if isinstance(dur, ExplU): dur = I.resolve(dur)
    d = dv(I, self)
    if dur.kind == "empty":
        k = z3.IntVal(0)
    elif dur.kind == "eq":
        q = qv(I, dur)
        if q.unit.dim != I.units.literal("hour").dim: raise SymRaise("DimensionalityError", "shift duration")
        k = floor_i(q.phys / 3600)
        dur.value = Qty(q.phys, I.units.literal("hour"))      # side effect of the real code: the duration is converted to hours IN PLACE (same physical value)
    else:
        raise Unsupported("shift duration kind")
    return new_expl(I, "ehq", DF(L.vshift(d.vec, k), d.unit), None, left=self, right=dur, operator="shifted by")


@spec("ehq", "sum")
def h_sum(I, self):
    d = dv(I, self)
    if d.vec.total is None: raise Unsupported("sum of series without structural total")
    return new_expl(I, "eq", Qty(d.vec.total, d.unit), None, left=self, operator="sum")


@spec("ehq", "mean")
def h_mean(I, self):
    d = dv(I, self)
    I.require("mean: the series is not empty", d.vec.n > 0)
    q = I.series_method(Series(d), "mean", [], {})
    return new_expl(I, "eq", q, None, left=self, operator="mean")


@spec("ehq", "max")
def h_max(I, self):
    d = dv(I, self)
    I.require("max: the series is not empty", d.vec.n > 0)
    q = I.series_method(Series(d), "max", [], {})
    return new_expl(I, "eq", q, None, left=self, operator="max")


def _h_map(name, f):
    @spec("ehq", name)
    def g(I, self):
        d = dv(I, self)
        fac = d.unit.f
        tot = None
        if name == "__neg__" and d.vec.total is not None: tot = -d.vec.total
        vec = L.vmap(d.vec, lambda x: f(x / fac) * fac, total=tot)
        return new_expl(I, "ehq", DF(vec, d.unit), None, left=self, operator={"__neg__": "negate"}.get(name, name))
    return g


_h_map("abs", lambda m: z3.If(m >= 0, m, -m))
_h_map("ceil", ceil_r)
_h_map("__neg__", lambda m: -m)


@spec("ehq", "np_compared_with")
def h_npc(I, self, other, comparator):
    if isinstance(other, ExplU): other = I.resolve(other)
    if comparator not in ("max", "min"): raise SymRaise("ValueError", "comparator")
    d = dv(I, self)
    f = (lambda x, y: z3.If(x >= y, x, y)) if comparator == "max" else (lambda x, y: z3.If(x <= y, x, y))
    if isinstance(other, Expl) and other.kind == "empty":
        vec = L.vmap(d.vec, lambda x: f(x, z3.RealVal(0)))
    elif isinstance(other, Expl) and other.kind == "ehq":
        o = dv(I, other)
        # element-wise max/min BY TIMESTAMP on the union of both time lines, missing hours counting as zero,
        # physical values compared (so the operands' units do not matter); incompatible dimensions raise (C04 / C09)
        if o.unit.dim != d.unit.dim: raise SymRaise("DimensionalityError", "np_compared_with")
        a_, b_ = d.vec, o.vec
        vec = Vec(lambda t: z3.Or(a_.inidx(t), b_.inidx(t)), lambda t: f(a_.v0(t), b_.v0(t)))
    else:
        raise SymRaise("ValueError", "np_compared_with")
    return new_expl(I, "ehq", DF(vec, d.unit), Label(True), left=self, right=other, operator=Label(True))


@spec("ehq", "copy")
def h_copy(I, self):
    d = dv(I, self)
    return new_expl(I, "ehq", DF(d.vec, d.unit), self.label, left=self, operator="duplicate")


@spec("ehq", "__len__")
def h_len(I, self):
    return I.call_builtin("len", [self.value], {})


@spec("ehq", "__eq__")
def h_eq(I, self, other):
    if isinstance(other, ExplU): other = I.resolve(other)
    if is_zero_number(I, other): return False
    if isinstance(other, Expl) and other.kind == "empty": return False
    if isinstance(other, Expl) and other.kind == "ehq":
        a, b = dv(I, self), dv(I, other)
        if a.vec.n is None or b.vec.n is None: raise Unsupported("len")
        if I.eng.decide(a.vec.n != b.vec.n): raise SymRaise("ValueError", "different lengths")
        return Opaque("unspecified-bool")
    raise SymRaise("ValueError", "__eq__")


def _h_addsub(name, sign):
    @spec("ehq", name)
    def g(I, self, other):
        if isinstance(other, ExplU): other = I.resolve(other)
        if is_zero_number(I, other):
            return new_expl(I, "ehq", dv(I, self), None, left=self)
        if isinstance(other, Expl) and other.kind == "empty":
            return new_expl(I, "ehq", dv(I, self), None, self, other, "+" if sign > 0 else "-")
        if isinstance(other, Expl) and other.kind == "ehq":
            a, b = dv(I, self), dv(I, other)
            if a.unit.dim != b.unit.dim: raise SymRaise("DimensionalityError", name)
            if sign > 0:
                vec = L.vaddfill(a.vec, b.vec)
            else:
                # subtraction is only defined for series on the same time line
                I.require("__sub__: both series have the same index", a.vec.inidx(TT) == b.vec.inidx(TT))
                vec = L.vpointwise_same_index(a.vec, b.vec, lambda x, y: x - y)
                if a.vec.total is not None and b.vec.total is not None: vec.total = a.vec.total - b.vec.total
            return new_expl(I, "ehq", DF(vec, a.unit), "", self, other, "+" if sign > 0 else "-")
        raise SymRaise("ValueError", name)
    return g


_h_addsub("__add__", 1)
_h_addsub("__sub__", -1)
SPECS[("ehq", "__radd__")] = SPECS[("ehq", "__add__")]


@spec("ehq", "__rsub__")
def h_rsub(I, self, other):
    if isinstance(other, ExplU): other = I.resolve(other)
    if isinstance(other, Expl) and other.kind == "ehq":
        a, b = dv(I, other), dv(I, self)
        if a.unit.dim != b.unit.dim: raise SymRaise("DimensionalityError", "rsub")
        I.require("__rsub__: both series have the same index", a.vec.inidx(TT) == b.vec.inidx(TT))
        vec = L.vpointwise_same_index(a.vec, b.vec, lambda x, y: x - y)
        return new_expl(I, "ehq", DF(vec, a.unit), "", other, self, "-")
    raise SymRaise("ValueError", "rsub")


@spec("ehq", "__mul__")
@spec("ehq", "__rmul__")
def h_mul(I, self, other):
    if isinstance(other, ExplU): other = I.resolve(other)
    if is_zero_number(I, other): return PyNum(z3.IntVal(0))
    if isinstance(other, Expl):
        if other.kind == "empty": return empty(I, left=self, right=other, operator="*")
        a = dv(I, self)
        if other.kind == "eq":
            q = qv(I, other)
            return new_expl(I, "ehq", DF(L.vscale(a.vec, q.phys), a.unit * q.unit), "", self, other, "*")
        if other.kind == "ehq":
            b = dv(I, other)
            return new_expl(I, "ehq", DF(L.vmulfill(a.vec, b.vec), a.unit * b.unit), "", self, other, "*")
    raise SymRaise("ValueError", "mul")


@spec("ehq", "__truediv__")
def h_div(I, self, other):
    if isinstance(other, ExplU): other = I.resolve(other)
    if isinstance(other, Expl) and other.kind == "ehq": raise SymRaise("NotImplementedError", "series / series")
    if isinstance(other, Expl) and other.kind == "eq":
        a, q = dv(I, self), qv(I, other)
        I.require("__truediv__: divisor is not zero", q.phys != 0)
        return new_expl(I, "ehq", DF(L.vscale(a.vec, 1 / q.phys), a.unit / q.unit), "", self, other, "/")
    raise SymRaise("ValueError", "div")


@spec("ehq", "__rtruediv__")
def h_rdiv(I, self, other):
    if isinstance(other, ExplU): other = I.resolve(other)
    if isinstance(other, Expl) and other.kind == "ehq": raise SymRaise("NotImplementedError", "series / series")
    if isinstance(other, Expl) and other.kind == "eq":
        a, q = dv(I, self), qv(I, other)
        I.require("__rtruediv__: series divisor has no zero entry", z3.Implies(a.vec.inidx(TT), a.vec.val(TT) != 0))
        return new_expl(I, "ehq", DF(L.vmap(a.vec, lambda x: q.phys / x), q.unit / a.unit), "", other, self, "/")
    raise SymRaise("ValueError", "rdiv")


@spec("eq", "generate_explainable_object_with_logical_dependency")
@spec("ehq", "generate_explainable_object_with_logical_dependency")
@spec("eo", "generate_explainable_object_with_logical_dependency")
def x_logdep(I, self, cond):
    I.note_read(self)
    return new_expl(I, self.kind, self.value, self.label, left=self, right=cond, operator="logically dependent on")


@spec("ehq", "__copy__")
@spec("eo", "__copy__")
def x_copy_base(I, self):
    """ExplainableObject.__copy__ (inherited): a new object of the same class holding the same value, label and source, no parents"""
    I.note_read(self)
    return new_expl(I, self.kind, self.value, self.label, source=self.source)


# ------------------------------------------------------------------------------------------------ plain properties
@spec("ehq", "unit")
def ehq_unit(I, s):
    """the unit the data is currently expressed in (read from the data at every access)"""
    return s.value.unit


@spec("eq", "magnitude")
def eq_magnitude(I, s):
    return I.expl_getattr(s, "magnitude")


@spec("empty", "magnitude")
def empty_magnitude(I, s):
    return PyNum(z3.IntVal(0))
