"""Symbolic value domain of the VC generator (abstract *views*, DESIGN.md 2.2).

Shallow embedding: an hourly series is a pair of closures over an integer time `t` (minutes; one hour = 60),
`inidx(t): Bool` and `val(t): Real` (physical value in base units), plus, where it is structurally determined,
`total` (sum over the index) -- built from uninterpreted base functions.  Library operations (shift, add with
fill, scale ...) are definitions on the closures, so every verification condition is quantifier free.
"""
from __future__ import annotations
import itertools
import z3

HOUR = 60  # ticks per hour
R = z3.RealSort(); I = z3.IntSort(); B = z3.BoolSort()
_fresh = itertools.count()


def fresh(prefix, sort=R):
    return z3.Const(f"{prefix}!{next(_fresh)}", sort)


def rv(x):
    """python number / z3 term -> z3 Real term"""
    if isinstance(x, bool):
        raise TypeError("bool is not a real")
    if isinstance(x, int):
        return z3.RealVal(x)
    if isinstance(x, float):
        return z3.RealVal(repr(x)) if x == x and abs(x) != float("inf") else (_ for _ in ()).throw(ValueError("nan/inf literal"))
    if z3.is_expr(x):
        return z3.ToReal(x) if x.sort() == I else x
    raise TypeError(f"rv({x!r})")


CEIL = z3.Function("CEIL", R, R); CEILI = z3.Function("CEILI", R, I)
FLOOR = z3.Function("FLOOR", R, R); FLOORI = z3.Function("FLOORI", R, I)


def ceil_r(x):
    """mathematical ceiling of a Real term, as Real.  Encoded as an uninterpreted function whose defining facts
    (integrality, x <= CEIL(x) < x+1) are added for every application at solve time (engine.define_rounding): the
    solvers then use congruence instead of to_int reasoning, which they handle badly together with UF."""
    c = _concrete_round(x, "ceil")
    return c if c is not None else CEIL(x)


def _concrete_round(x, how):
    """numerals are rounded concretely (run-time twin of the contracts)"""
    import math
    from fractions import Fraction
    try:
        xs = z3.simplify(x)
    except Exception:
        return None
    if z3.is_rational_value(xs):
        f = Fraction(xs.numerator_as_long(), xs.denominator_as_long())
        return z3.RealVal(math.ceil(f) if how == "ceil" else math.floor(f))
    return None


def floor_r(x):
    c = _concrete_round(x, "floor")
    return c if c is not None else FLOOR(x)


def floor_i(x):
    c = _concrete_round(x, "floor")
    return z3.ToInt(c) if c is not None else FLOORI(x)


def ceil_i(x):
    c = _concrete_round(x, "ceil")
    return z3.ToInt(c) if c is not None else CEILI(x)


_RF_CACHE = {}      # formula id -> (formula kept alive, tuple of CEIL/FLOOR applications in it)


def _rounding_apps(f):
    k = f.get_id()
    hit = _RF_CACHE.get(k)
    if hit is not None and hit[0].eq(f): return hit[1]
    seen, apps, todo = set(), [], [f]
    while todo:
        e = todo.pop()
        i = e.get_id()
        if i in seen: continue
        seen.add(i)
        if z3.is_app(e):
            n = e.num_args()
            if n == 0: continue
            if n == 1 and e.decl().kind() == z3.Z3_OP_UNINTERPRETED:
                d = e.decl()
                if d.eq(CEIL) or d.eq(CEILI): apps.append(("c", e.arg(0)))
                elif d.eq(FLOOR) or d.eq(FLOORI): apps.append(("f", e.arg(0)))
            todo.extend(e.children())
        elif z3.is_quantifier(e):
            todo.append(e.body())
    apps = tuple(apps)
    _RF_CACHE[k] = (f, apps)
    return apps


def rounding_facts(formulas):
    """definitional facts for every CEIL/FLOOR application occurring in `formulas`"""
    seen, out = set(), []
    for f in formulas:
        if not z3.is_expr(f): continue
        for kind, a in _rounding_apps(f):
            key = (kind, a.get_id())
            if key in seen: continue
            seen.add(key)
            if kind == "c":
                c = CEIL(a); out += [c == z3.ToReal(CEILI(a)), c >= a, c < a + 1]
            else:
                c = FLOOR(a); out += [c == z3.ToReal(FLOORI(a)), c <= a, c > a - 1]
    # rounding applications nested in the arguments of the facts just produced are already covered: the traversal of the
    # enclosing formula visits every sub-term
    return out


# ------------------------------------------------------------------------------------------------ units
class Dim:
    """physical dimension: concrete exponent vector over base dimension names (read from the real pint registry)"""
    __slots__ = ("d",)

    def __init__(self, d=None):
        self.d = {k: v for k, v in (d or {}).items() if v != 0}

    def __mul__(self, o): return Dim({k: self.d.get(k, 0) + o.d.get(k, 0) for k in set(self.d) | set(o.d)})
    def __truediv__(self, o): return Dim({k: self.d.get(k, 0) - o.d.get(k, 0) for k in set(self.d) | set(o.d)})
    def __eq__(self, o): return isinstance(o, Dim) and self.d == o.d
    def __hash__(self): return hash(tuple(sorted(self.d.items())))
    def __repr__(self): return "Dim(" + ",".join(f"{k}^{v}" for k, v in sorted(self.d.items())) + ")" if self.d else "Dim(1)"


DIMLESS = Dim()


class Unit:
    """a pint unit: dimension (concrete) + conversion factor to base units (python float for literal units read from
    the real registry, z3 Real > 0 for the symbolic unit an input happens to be expressed in)"""
    __slots__ = ("dim", "factor", "name")

    def __init__(self, dim, factor, name=None):
        self.dim, self.factor, self.name = dim, factor, name

    @property
    def f(self):
        return rv(self.factor)

    def is_literal(self):
        return not z3.is_expr(self.factor) or z3.is_rational_value(self.factor)

    def __mul__(self, o): return Unit(self.dim * o.dim, _mulf(self.factor, o.factor))
    def __truediv__(self, o): return Unit(self.dim / o.dim, _divf(self.factor, o.factor))
    def __repr__(self): return f"Unit({self.name or self.factor},{self.dim})"


def _mulf(a, b):
    if not z3.is_expr(a) and not z3.is_expr(b): return a * b
    return z3.simplify(rv(a) * rv(b))


def _divf(a, b):
    if not z3.is_expr(a) and not z3.is_expr(b): return a / b
    return z3.simplify(rv(a) / rv(b))


class DimensionalityError(Exception):
    """symbolic twin of pint.DimensionalityError (raised by libspec when concrete dimensions disagree)"""


# ------------------------------------------------------------------------------------------------ values
class Qty:
    """pint Quantity view: phys (value in base units) + current unit"""
    def __init__(self, phys, unit):
        self.phys, self.unit = rv(phys), unit

    @property
    def mag(self):  # .magnitude
        return self.phys / self.unit.f


class Vec:
    """hourly series view (phys level).  val(t) is only meaningful where inidx(t)."""
    def __init__(self, inidx, val, total=None, tmax=None, tmin=None, n=None, origin=None):
        self.inidx, self._val, self.total = _memo(inidx), _memo(val), total
        self.tmax, self.tmin, self.n = tmax, tmin, n   # optional z3 terms (index max/min ticks, length)
        self.origin = origin if origin is not None else self  # the Vec whose index this one shares (positional ops)

    def val(self, t): return self._val(t)
    def v0(self, t): return z3.If(self.inidx(t), self._val(t), z3.RealVal(0))

    def same_index_as(self, o):
        return self.origin is o.origin


def _memo(f):
    """closures over time are evaluated many times at the same few points: cache by z3 ast id"""
    if getattr(f, "_memoized", False): return f
    cache = {}
    def g(t):
        k = t.get_id() if z3.is_expr(t) else ("py", t)
        hit = cache.get(k)
        if hit is None:
            hit = (t, f(t)); cache[k] = hit
        return hit[1]
    g._memoized = True
    return g


def base_vec(name, nonneg=False):
    fin = z3.Function(f"{name}.in", I, B); fv = z3.Function(f"{name}.val", I, R)
    v = Vec(lambda t: fin(t), lambda t: fv(t), total=z3.Const(f"{name}.total", R),
            tmax=z3.Const(f"{name}.tmax", I), tmin=z3.Const(f"{name}.tmin", I), n=z3.Const(f"{name}.len", I))
    v.name = name
    fp = z3.Function(f"{name}.prefix", I, R)
    v.prefix = lambda t: fp(t)
    v.fin, v.fv = fin, fv
    return v


class DF:
    """one-column pint-typed DataFrame view: series + unit of the dtype"""
    def __init__(self, vec, unit):
        self.vec, self.unit = vec, unit


class Opaque:
    """a value the numeric profile does not interpret (strings, timezones, API dicts ...)"""
    def __init__(self, what, payload=None):
        self.what, self.payload = what, payload

    def __repr__(self): return f"Opaque({self.what})"


class Label:
    """label string abstraction: only (non-)emptiness is tracked (C07)"""
    __slots__ = ("nonempty", "text")

    def __init__(self, nonempty, text=None):
        self.nonempty, self.text = nonempty, text

    def __repr__(self): return f"Label({'+' if self.nonempty else '-'}{self.text or ''})"


class Expl:
    """ExplainableObject view.  kind in {'empty','eq','ehq','eo'} is concrete on a path."""
    _ids = itertools.count()

    def __init__(self, kind, value=None, label=None, left=None, right=None, operator=None, source=None,
                 attached=None, deps=frozenset(), anc=None, fresh_obj=True):
        self.kind, self.value = kind, value
        self.label = label if label is not None else Label(False)
        self.left, self.right, self.operator, self.source = left, right, operator, source
        self.attached = attached       # None, or (owner description, attr name): value currently held by the model
        self.deps = frozenset(deps)     # ghost: model values whose content flowed into this one (data or control)
        self.anc = anc                  # ghost: recorded direct_ancestors_with_id (set of attached-value keys)
        self.fresh_obj = fresh_obj      # created inside the function under verification (not reachable from the model)
        self.uid = next(Expl._ids)
        self.mutated_phys = False

    def __repr__(self):
        return f"Expl#{self.uid}({self.kind}{',att=' + str(self.attached) if self.attached else ''})"


class ExplU:
    """Expl whose kind is decided by a z3 Bool (Empty or the given non-empty alternative)"""
    def __init__(self, is_empty, nonempty: Expl, empty: Expl | None = None):
        self.is_empty, self.nonempty = is_empty, nonempty
        self.empty = empty


class Opt:
    """None-or-value decided by a z3 Bool (accumulators initialised to None)"""
    def __init__(self, is_none, value):
        self.is_none, self.value = is_none, value


class ModelObj:
    """a ModelingObject of class `cls` (real class object).  Attributes are created lazily from the schema;
    `index` is a z3 Int when the object is the i-th element of a symbolic list (attributes become functions of i)."""
    _ids = itertools.count()

    def __init__(self, cls, name, index=None, family=None):
        self.cls, self.name, self.index, self.family = cls, name, index, family
        self.attrs = {}
        self.writes = []   # [(attr, value)] in program order
        self.uid = next(ModelObj._ids)

    def key(self, attr):
        return (self.family or self.name, attr) if self.index is None else (self.family, attr, str(self.index))

    def __repr__(self): return f"ModelObj({self.name})"


class SList:
    """symbolic list: length `n` (z3 Int >= 0) and element constructor elem(i); `unordered` when it derives from
    list(set(...)) / modeling_obj_containers (iteration order unspecified, duplicate-free)"""
    def __init__(self, n, elem, name, unordered=False, guard=None):
        self.n, self.elem, self.name, self.unordered = n, elem, name, unordered
        self.guard = guard     # filtered comprehension: iteration i only happens when guard(i) holds


class SRange:
    def __init__(self, lo, hi):
        self.lo, self.hi = lo, hi


class PyNum:
    """python int/float: z3 Int or Real term (floats are mathematical reals: assumption A-REAL)"""
    __slots__ = ("z", "sign_term")

    def __init__(self, z, sign_term=None):
        self.z = z
        self.sign_term = sign_term    # a term with the same sign (magnitude = phys/factor, factor > 0): keeps sign tests linear

    @property
    def is_int(self): return self.z.sort() == I
    @property
    def r(self): return rv(self.z)


class NoneV:
    def __repr__(self): return "NoneV"


NONE = NoneV()


class Arr:
    """numpy array of magnitudes positionally tied to the index of `origin` (a Vec): element at the position of
    timestamp t is mag(t).  `scalar_fill` arrays (np.full / np.ones) have a constant value and a length."""
    def __init__(self, mag, origin=None, length=None):
        self.mag, self.origin, self.length = mag, origin, length
        self.total = None     # sum of the magnitudes where structurally known
        self.const = None


class PintArr:
    def __init__(self, arr: Arr, unit: Unit):
        self.arr, self.unit = arr, unit


class Index:
    """DatetimeIndex view: the index of `origin`"""
    def __init__(self, origin: Vec):
        self.origin = origin


class QList:
    """symbolic list whose elements are drawn from an input sequence: element p is input[src(p)]; `idf(j)` is the integer
    id of input element j (ModelingObject / attached-value ids are compared with ==).  Used by the list profile (chains)."""
    def __init__(self, n, src, idf, name="qlist"):
        self.n, self.src, self.idf, self.name = n, src, idf, name


class QElem:
    def __init__(self, lst, j):
        self.lst, self.j = lst, j      # j: index in the INPUT sequence


class QIds:
    """[x.id for x in qlist] (optionally sliced lo:hi)"""
    def __init__(self, lst, lo=None, hi=None):
        self.lst, self.lo, self.hi = lst, lo, hi


class QBoolGen:
    """(test(x) for x in qlist): a generator of booleans consumed by any() / all()"""
    def __init__(self, lst, test):
        self.lst, self.test = lst, test


class Havoc:
    """predicate-style loop invariant for one variable: fresh value + facts about it at iteration i"""
    def __init__(self, make, pred):
        self.make, self.pred = make, pred


class PArr:
    """positional numpy array of python/numpy numbers: length n, element at(p)"""
    def __init__(self, n, at):
        self.n, self.at = n, at


class IntSet:
    """a python list of ints used only for membership tests: abstract predicate"""
    def __init__(self, pred, name="set"):
        self.pred, self.name = pred, name


class KDict:
    """python dict keyed by the elements of one symbolic list (key = element index k): base(k) plus an overlay of writes"""
    def __init__(self, keys, base, dom=None):
        self.keys, self.base, self.overlay = keys, base, []
        self.dom = dom          # None: every key of the list has an entry; else k -> z3 Bool (entries present in `base`)


class KeyStub:
    """key list of a dict created empty: known by name only (the list the first key written belongs to)"""
    def __init__(self, name=None): self.name = name
