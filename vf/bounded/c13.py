"""C13 bounded stand-in: JSON round trip of whole systems (real system_to_json / json_to_system)."""
from __future__ import annotations
import copy, json, traceback
from . import harness as H
from .harness import ExplainableObject, ExplainableQuantity, ExplainableHourlyQuantities, EmptyExplainableObject


def raw(x): return getattr(x, "_value", x)


def describe(system):
    """identity-free description of a system: per object id -> class, name, links (ids), inputs (label, source, phys view)"""
    out = {}
    for o in [system] + list(system.all_linked_objects):
        o = raw(o)
        d = {"class": type(o).__name__, "name": o.name, "links": {}, "inputs": {}}
        for k, v in o.__dict__.items():
            if k in ("contextual_modeling_obj_containers", "trigger_modeling_updates", "all_changes", "previous_change", "simulation", "id", "name"): continue
            if k.startswith("previous_") or k.startswith("initial_") or k in o.calculated_attributes: continue
            if isinstance(v, list): d["links"][k] = [raw(x).id for x in v]
            elif hasattr(v, "_value"): d["links"][k] = raw(v).id
            elif isinstance(v, ExplainableObject):
                src = v.source
                d["inputs"][k] = {"label": v.label, "source": (src.name, src.link) if src is not None else None, "view": H.view(v)}
            elif isinstance(v, (str, type(None))): d["inputs"][k] = {"plain": v}
        out[o.id] = d
    return out


def desc_diff(a, b, hourly_tol=5e-4):
    d = []
    if set(a) != set(b): return [f"object-ids:{sorted(set(a) ^ set(b))[:4]}"]
    for i in a:
        x, y = a[i], b[i]
        if x["class"] != y["class"] or x["name"] != y["name"]: d.append(f"class-or-name:{x['name']}")
        if x["links"] != y["links"]: d.append(f"links:{x['name']}:{[k for k in x['links'] if x['links'].get(k) != y['links'].get(k)]}")
        if set(x["inputs"]) != set(y["inputs"]): d.append(f"input-set:{x['name']}:{sorted(set(x['inputs']) ^ set(y['inputs']))}"); continue
        for k, u_ in x["inputs"].items():
            w = y["inputs"][k]
            if "plain" in u_:
                if u_ != w: d.append(f"plain:{x['name']}.{k}")
                continue
            if u_["label"] != w["label"]: d.append(f"label:{x['name']}.{k}")
            if u_["source"] != w["source"]: d.append(f"source:{x['name']}.{k}")
            va, vb = u_["view"], w["view"]
            if "hourly" in va and "hourly" in vb:
                if set(va["hourly"]) != set(vb["hourly"]) or any(abs(va["hourly"][t] - vb["hourly"][t]) > hourly_tol * _unit_scale(va) for t in va["hourly"]):
                    d.append(f"hourly-input:{x['name']}.{k}")
            elif not H.view_equal(va, vb, rel=1e-12): d.append(f"value:{x['name']}.{k}")
    return d


def _unit_scale(v): return 1.0


def snapshot_by_id(system):
    out = {}
    for o in [system] + list(system.all_linked_objects):
        o = raw(o)
        for a in o.calculated_attributes:
            v = getattr(o, a)
            if isinstance(v, dict): out[(o.id, a)] = {"dict": {raw(k).id if hasattr(raw(k), "id") else str(k): H.view(x) for k, x in v.items() if not isinstance(x, EmptyExplainableObject)}}
            else: out[(o.id, a)] = H.view(v)
    return out


def _case(args):
    kind, tname, spec, idx, mode = args
    H.deterministic_ids(13)
    from efootprint.api_utils.system_to_json import system_to_json
    from efootprint.api_utils.json_to_system import json_to_system
    out = {"case": f"{tname}|after={idx}|{mode}", "status": "ok", "fails": []}
    try:
        if kind == "services": b = H.build_services_system()
        else:
            b = H.build(spec)
            if idx is not None:
                eds = H.numeric_edits(spec) + H.link_edits(spec)
                for i in idx: eds[i].live(b)
                out["case"] = f"{tname}|after {[eds[i].name for i in idx]}|{mode}"
        sysm = b.system
        save_calc = mode == "with-calculated"
        j = system_to_json(sysm, save_calculated_attributes=save_calc)
        j = json.loads(json.dumps(j))                      # what a file would hold
        if mode == "v9-file":
            j["efootprint_version"] = "9.1.4"
            if "Device" in j: j["Hardware"] = j.pop("Device")
        cls_dict, flat = json_to_system(copy.deepcopy(j))
        s2 = next(iter(cls_dict["System"].values()))
        f = desc_diff(describe(sysm), describe(s2))
        d = H.diff(snapshot_by_id(sysm), snapshot_by_id(s2), rel=1e-9)
        if d: f.append(f"recomputed-results-differ:{[a for _, a in d][:4]}")
        if mode != "v9-file":
            j2 = json.loads(json.dumps(system_to_json(s2, save_calculated_attributes=save_calc)))
            def norm(x):
                # recorded ancestor / child id lists derive from sets of jobs: their order is not part of the saved model
                if isinstance(x, dict):
                    return {k: (sorted(v) if k in ("direct_ancestors_with_id", "direct_children_with_id") and isinstance(v, list) else norm(v)) for k, v in x.items()}
                if isinstance(x, list): return [norm(v) for v in x]
                return x
            j, j2 = norm(j), norm(j2)
            if j2 != j:
                keys = [k for k in set(j) | set(j2) if j.get(k) != j2.get(k)]
                f.append(f"re-export-differs:{keys[:3]}")
        if mode == "live-edit" and kind != "services":
            # the loaded system is live: the same edit on both gives the same results
            o1 = next(o for o in [raw(x) for x in sysm.all_linked_objects] if type(o).__name__ == "Job")
            o2 = flat[o1.id]
            o1.data_transferred = H.Q((777, "kB")); o2.data_transferred = H.Q((777, "kB"))
            st1 = next(o for o in [raw(x) for x in sysm.all_linked_objects] if type(o).__name__ == "UsageJourneyStep")
            st2 = flat[st1.id]
            st1.jobs.append(o1); st2.jobs.append(o2)
            d = H.diff(snapshot_by_id(sysm), snapshot_by_id(s2), rel=1e-9)
            if d: f.append(f"loaded-system-not-live:{[a for _, a in d][:4]}")
            # single-object links of the loaded system can be replaced like those of the original (the old target lets go)
            servers = [o for o in [raw(x) for x in sysm.all_linked_objects] if type(o).__name__ == "Server"]
            other = next((sv for sv in servers if sv.id != raw(o1.server).id), None)
            if other is not None and not d:
                o1.server = other; o2.server = flat[other.id]
                d = H.diff(snapshot_by_id(sysm), snapshot_by_id(s2), rel=1e-9)
                if d: f.append(f"loaded-system-not-live-after-a-link-edit:{[a for _, a in d][:4]}")
                for x1 in servers:
                    j1 = sorted(raw(j).id for j in x1.jobs); j2_ = sorted(raw(j).id for j in flat[x1.id].jobs)
                    if j1 != j2_: f.append(f"loaded-system-reverse-links-differ:{x1.name}: {len(j1)} jobs vs {len(j2_)}")
        out["fails"] = f
        if f: out["status"] = "fails"
        out["shared"] = kind != "services" and H.has_shared_job(b.spec)
    except Exception as ex:
        if H.is_float_cancellation_rejection(ex): out["status"] = "D3"
        else: out["status"] = "raises"; out["fails"] = [f"{type(ex).__name__}: {str(ex)[:160]}"]; out["error"] = traceback.format_exc()[-600:]
    return out


def fractional(spec):
    s = copy.deepcopy(spec)
    for up in s["ups"].values(): up["values"] = [round(x * 1.2345678 + 0.0004, 3) for x in up["values"]]   # exactly 3 decimals survive
    return s


def run(tier, seed, procs=16):
    T = H.topologies()
    # a saved system holds what is reachable from the System object: a job defined on a server but used by no step is not part of
    # it (nothing of the model depends on it), so it is left out of the round-trip scenarios
    for spec_ in T.values():
        used = {j for st in spec_["steps"].values() for j in st["jobs"]}
        for j in [j for j in spec_["jobs"] if j not in used]: del spec_["jobs"][j]
    # inputs given without any source must come back without one (only here: C07 requires inputs to carry a source)
    s_ = copy.deepcopy(T["custom_sources"])
    s_["jobs"]["job0"]["data_stored"] = (120, "kB", None); s_["networks"]["net0"] = {"bei": (0.06, "kWh/GB", None)}
    T["custom_sources+inputs_without_source"] = s_
    items = [("services", "services_system", None, None, m) for m in ("inputs-only", "with-calculated", "v9-file")]
    for tname, spec in T.items():
        for m in ("inputs-only", "with-calculated", "live-edit", "v9-file"):
            items.append(("core", tname, spec, None, m))
        items.append(("core", tname + "+fractional-hourly-inputs", fractional(spec), None, "inputs-only"))
        n = len(H.numeric_edits(spec) + H.link_edits(spec))
        hist = [(i,) for i in range(n) if (i + seed) % (4 if tier == "quick" else 1) == 0]
        for h in hist: items.append(("core", tname, spec, h, "inputs-only"))
    res = H.run_parallel(_case, items, procs)
    viol, samples, nontrivial = [], [], set()
    for r in res:
        nontrivial.add(r["case"])
        if len(samples) < 4: samples.append({"case": r["case"], "result": r["status"]})
        if r["status"] == "ok": continue
        if r["status"] == "D3":
            viol.append({"signature": "D3", "what": "deletion-free model rejected", "input": {"case": r["case"]}}); continue
        sig = f"C13|{r['case']}|{';'.join(r['fails'])[:200]}"
        if r.get("shared") and "after [" in r["case"]: sig = "D1"
        viol.append({"signature": sig, "what": f"C13 {r['case']}: {r['fails'][:4]}", "input": {"case": r["case"]}})
    return {"evaluations": len(res), "distinct_nontrivial": len(nontrivial),
            "rule": "one case = (system: core topologies as built / after an edit / with fractional hourly inputs, and a system holding every builder class; mode: inputs only | with calculated attributes | live edit on both | file of the previous major version); "
                    "exported through json text and loaded back: object ids, classes, links, labels, sources, input values (hourly within 5e-4), recomputed results, re-export equality, liveness",
            "samples": samples, "violations": viol, "exhaustive": False,
            "bound": f"{len(T)} topologies x 4 modes + one edit history each ({'a quarter of' if tier == 'quick' else 'all'} single edits) + services system x 3 modes"}
