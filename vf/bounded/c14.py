"""C14 bounded stand-in: invalid inputs are refused at construction and on assignment, and a refused assignment changes
nothing (whole-model snapshot of values, identities and links before/after)."""
from __future__ import annotations
import inspect, traceback
from . import harness as H
from .harness import u, SourceValue, SourceObject, EmptyExplainableObject


def bad_values(obj, name, ann, default):
    """[(kind, value)] of invalid values for parameter `name`"""
    from efootprint.abstract_modeling_classes.explainable_objects import ExplainableQuantity
    from efootprint.abstract_modeling_classes.explainable_object_base_class import ExplainableObject
    out = []
    s = str(ann)
    if "ExplainableQuantity" in s:
        dim = None
        if default is not None and hasattr(default.value, "dimensionality"): dim = default.value.dimensionality
        wrong = SourceValue(3 * u.kg) if (dim is None or "[mass]" not in str(dim) or len(dim) > 1) else SourceValue(3 * u.s)
        if name == "fixed_nb_of_instances": wrong = SourceValue(3 * u.kg)
        out.append(("wrong-dimension", wrong))
        # zero is not a wildcard: 0 of a wrong dimension is still a wrong dimension
        out.append(("wrong-dimension:zero", SourceValue(0 * wrong.value.units)))
        if default is not None and hasattr(default.value, "units") and name not in type(obj).attributes_that_can_have_negative_values():
            out.append(("negative", SourceValue(-1 * default.value.units)))
            # a negative amount is negative whatever its size in the unit it is written in
            out.append(("negative:small-magnitude", SourceValue(-3e-7 * default.value.units)))
        st_ = getattr(obj, "server_type", None)
        if name == "fixed_nb_of_instances" and st_ is not None and str(getattr(st_, "value", "")) in ("autoscaling", "serverless"):
            # well-typed, but a fixed count is only allowed on on-premise servers (allowed-values tables of the server classes)
            out.append(("value-not-allowed-for-the-server-type", SourceValue(3 * u.dimensionless)))
        out.append(("wrong-type:float", 3.0))
        out.append(("wrong-type:str", "3 kg"))
        out.append(("wrong-type:object", SourceObject("some text")))
    elif "ExplainableObject" in s:
        lv = type(obj).list_values()
        clv = type(obj).conditional_list_values()
        if name in lv or name in clv:
            out.append(("outside-allowed-list", SourceObject("banana")))
            # "no value" is not one of the allowed values either
            from efootprint.abstract_modeling_classes.explainable_objects import EmptyExplainableObject
            out.append(("no-value-for-a-restricted-parameter", EmptyExplainableObject()))
        out.append(("wrong-type:quantity", SourceValue(3 * u.kg)))
        out.append(("wrong-type:str", "autoscaling"))
    elif "List" in s or "list" in s:
        out.append(("list-with-wrong-class", "LIST"))
    return out


def _case(args):
    objname, pname, kind, phase = args
    H.deterministic_ids(8)
    out = {"case": f"{objname}.{pname}:{kind}@{phase}", "status": "ok", "diff": [], "annot": ""}
    try:
        b = H.build_services_system()
        obj = H.__dict__.get("raw", lambda x: getattr(x, "_value", x))(b[objname])
        cls = type(obj)
        sig = inspect.signature(cls.__init__).parameters
        ann = sig[pname].annotation
        out["annot"] = "union" if "|" in str(ann) else "plain"
        dv = cls.default_values()
        bv = dict(bad_values(obj, pname, ann, dv.get(pname)))
        val = bv[kind]
        if isinstance(val, str) and val == "LIST":
            good = list(getattr(obj, pname))
            val = good + [b["net"] if pname != "devices" or True else b["net"]]
            if pname == "usage_patterns": val = good + [b["dev"]]
        if phase == "assign":
            before = H.identity_snapshot(b.system)
            try:
                setattr(obj, pname, val)
                out["status"] = "accepted"
            except Exception as ex:
                out["exc"] = type(ex).__name__
            try:
                after = H.identity_snapshot(b.system)
                d = H.identity_diff(before, after)
            except Exception as ex:
                d = [f"model unusable after the assignment: {type(ex).__name__}: {str(ex)[:80]}"]
            if d: out["diff"] = d; out["status"] = "refused-but-model-changed" if out["status"] == "ok" else "accepted"
        else:
            kwargs = {}
            for n, p in sig.items():
                if n in ("self", "name"): continue
                if n == pname: kwargs[n] = val
                elif n in dv: kwargs[n] = dv[n]
                else:
                    cur = getattr(obj, n)
                    kwargs[n] = list(cur) if isinstance(cur, list) else getattr(cur, "_value", cur)
                    if isinstance(kwargs[n], list): kwargs[n] = [getattr(x, "_value", x) for x in kwargs[n]]
            try:
                cls("new " + objname, **kwargs)
                out["status"] = "accepted"
            except Exception as ex:
                out["exc"] = type(ex).__name__
    except Exception:
        out["status"] = "harness-error"; out["error"] = traceback.format_exc()[-700:]
    return out


def _grouped_case(args):
    """multi-change update: a valid link / numeric change grouped with an invalid change, in both orders"""
    first, order = args[:2]
    inv_kind = args[2] if len(args) > 2 else "wrong-dimension"
    H.deterministic_ids(8)
    out = {"case": f"grouped[{first}]+invalid[{inv_kind}]@{order}", "status": "ok", "diff": [], "annot": "plain"}
    try:
        T = H.topologies()
        b = H.build(T["two_servers_repeated_job"])
        valid = {"relink-server": [b["job0"].server, b["srv1"]], "relink-network": [b["up0"].network, b["net0"]],
                 "numeric": [b["job0"].ram_needed, H.Q((70, "MB"))], "list": [b["step0"].jobs, [b["job0"], b["job1"]]]}[first]
        invalid = [b["job1"].data_transferred, SourceValue(3 * u.s)]
        if inv_kind == "outside-allowed-list":
            # a restricted parameter of an object of ANOTHER class than the valid change's object
            # (a fixed instance count is not allowed on a serverless server: refused by the allowed-values tables of Server)
            invalid = [b["srv1"].fixed_nb_of_instances, H.Q((3, "dimensionless"))]
        changes = [valid, invalid] if order == "valid-first" else [invalid, valid]
        objs = list(b.obj.values())
        before = H.identity_snapshot(b.system)
        rev_before = {k: tuple(sorted(getattr(c, "_value", c).name for c in getattr(o, "_value", o).modeling_obj_containers)) for k, o in b.obj.items()}
        try:
            H.ModelingUpdate(changes); out["status"] = "accepted"
        except Exception as ex:
            out["exc"] = type(ex).__name__
        d = H.identity_diff(before, H.identity_snapshot(b.system))
        rev_after = {k: tuple(sorted(getattr(c, "_value", c).name for c in getattr(o, "_value", o).modeling_obj_containers)) for k, o in b.obj.items()}
        d += [f"{k}:reverse-links {rev_before[k]}->{rev_after[k]}" for k in rev_before if rev_before[k] != rev_after[k]]
        if d: out["diff"] = d; out["status"] = "refused-but-model-changed" if out["status"] == "ok" else out["status"]
    except Exception:
        out["status"] = "harness-error"; out["error"] = traceback.format_exc()[-700:]
    return out


FRESH_PROCESS_SCENARIOS = {
    # validation must not depend on which classes were used earlier in the process: a plain server first, then a cloud server whose
    # provider alone is changed to one that does not offer its instance type
    "plain server first, then cloud.provider=aws with a scaleway instance type": """
from efootprint.core.hardware.server import Server
from efootprint.core.hardware.storage import Storage
from efootprint.builders.hardware.boavizta_cloud_server import BoaviztaCloudServer
from efootprint.abstract_modeling_classes.source_objects import SourceObject, SourceValue
from efootprint.abstract_modeling_classes.modeling_update import ModelingUpdate
from efootprint.constants.units import u
plain = Server.from_defaults("plain", storage=Storage.ssd("s1"))
plain.power = SourceValue(310 * u.W)
cloud = BoaviztaCloudServer.from_defaults("cloud", storage=Storage.ssd("s2"))
try:
    ModelingUpdate([[cloud.provider, SourceObject("aws")]])
    print("RESULT accepted")
except Exception as ex:
    print("RESULT refused", type(ex).__name__)
""",
    "cloud server first, then the same change": """
from efootprint.core.hardware.storage import Storage
from efootprint.builders.hardware.boavizta_cloud_server import BoaviztaCloudServer
from efootprint.abstract_modeling_classes.source_objects import SourceObject
from efootprint.abstract_modeling_classes.modeling_update import ModelingUpdate
cloud = BoaviztaCloudServer.from_defaults("cloud", storage=Storage.ssd("s2"))
try:
    ModelingUpdate([[cloud.provider, SourceObject("aws")]])
    print("RESULT accepted")
except Exception as ex:
    print("RESULT refused", type(ex).__name__)
""",
}


def _fresh_process_case(name):
    import os, subprocess, sys
    out = {"case": f"fresh-process[{name}]", "status": "ok", "diff": [], "annot": "plain"}
    try:
        env = dict(os.environ); env["PYTHONPATH"] = os.environ.get("VF_REPO", "/repo")
        r = subprocess.run([sys.executable, "-c", FRESH_PROCESS_SCENARIOS[name]], capture_output=True, text=True, env=env, timeout=300)
        line = next((l for l in r.stdout.splitlines() if l.startswith("RESULT")), None)
        if line is None: out["status"] = "harness-error"; out["error"] = (r.stderr or r.stdout)[-600:]
        elif "accepted" in line: out["status"] = "accepted"
        else: out["exc"] = line.split()[-1]
    except Exception:
        out["status"] = "harness-error"; out["error"] = traceback.format_exc()[-600:]
    return out


def all_cases():
    b = H.build_services_system()
    items = []
    seen_cls = set()
    for objname, o in b.obj.items():
        obj = getattr(o, "_value", o)
        cls = type(obj)
        if cls in seen_cls: continue
        seen_cls.add(cls)
        sig = inspect.signature(cls.__init__).parameters
        dv = cls.default_values()
        for pname, p in sig.items():
            if pname in ("self", "name"): continue
            for kind, _ in bad_values(obj, pname, p.annotation, dv.get(pname)):
                for phase in ("construct", "assign"):
                    if phase == "assign" and pname == "provider": continue   # provider changes are refused by design (PermissionError)
                    items.append((objname, pname, kind, phase))
    return items


def classify(r):
    if r["case"].startswith("fresh-process"): return f"C14|{r['case']}|{r['status']}"
    if r["case"].startswith("grouped"):
        if "invalid[outside-allowed-list]" in r["case"] and r["status"] == "refused-but-model-changed": return "D8"
        return f"C14|{r['case']}|{r['status']}|{','.join(r['diff'])[:200]}"
    kind = r["case"].split(":", 1)[1].split("@")[0]
    phase = r["case"].rsplit("@", 1)[1]
    if r["status"] == "accepted":
        if r["annot"] == "union" and ".fixed_nb_of_instances:" in r["case"] and kind.split(":")[0] in ("wrong-dimension", "negative", "wrong-type"): return "D9"      # the parameters that are union-annotated on the pinned tree: no type / dimension / sign validation
        if kind == "list-with-wrong-class" and phase == "construct": return "D17"
    if r["status"] == "refused-but-model-changed" and kind in ("outside-allowed-list", "no-value-for-a-restricted-parameter", "value-not-allowed-for-the-server-type"): return "D8"
    if r["status"] == "refused-but-model-changed" and r["annot"] == "union" and ".fixed_nb_of_instances:" in r["case"]: return "D9"
    return f"C14|{r['case']}|{r['status']}|{','.join(r['diff'])[:200]}"


def run(tier, seed, procs=16):
    items = all_cases()
    res = H.run_parallel(_case, items, procs)
    res += H.run_parallel(_grouped_case, [(f, o) for f in ("relink-server", "relink-network", "numeric", "list") for o in ("valid-first", "invalid-first")], procs)
    res += H.run_parallel(_grouped_case, [(f, o, "outside-allowed-list") for f in ("relink-server", "relink-network", "numeric", "list") for o in ("valid-first", "invalid-first")], procs)
    res += [_fresh_process_case(n) for n in FRESH_PROCESS_SCENARIOS]
    viol, samples, nontrivial = [], [], set()
    for r in res:
        if r["status"] == "harness-error": raise RuntimeError("bounded harness error: " + r.get("error", ""))
        nontrivial.add(r["case"])
        if len(samples) < 4: samples.append({"case": r["case"], "result": r["status"], "exception": r.get("exc")})
        if r["status"] == "ok": continue
        viol.append({"signature": classify(r), "what": f"C14 {r['case']}: {r['status']} {r['diff'][:6]}", "input": {"case": r["case"]}})
    return {"evaluations": len(res), "distinct_nontrivial": len(nontrivial),
            "rule": "one case = (class, parameter, kind of invalid value in {wrong dimension, negative, wrong type, list with wrong class, outside allowed list}, at construction | on assignment in a live system with every builder class); "
                    "must raise; on assignment the whole model (values, identities of value objects, links) is compared before/after",
            "samples": samples, "violations": viol, "exhaustive": True,
            "bound": "every parameter of every class of a system holding all 18 public classes x applicable invalid kinds x {construct, assign}"}
