from . import inv


def run(tier, seed, procs=16):
    return inv.run_prop("C04", tier, seed, procs)
