"""C09 bounded stand-in = run-time twin of the operator contracts: the SAME specification functions that the proof tier
discharges symbolically (vf/contracts/explainable.py) are evaluated on concrete operands and compared with what the
real methods do on real pint / pandas objects.  This also validates the library contracts (vf/libspec.py) the proofs assume.
"""
from __future__ import annotations
import itertools, math, traceback
from datetime import datetime
from fractions import Fraction
import z3
from . import harness as H
from .harness import u, ExplainableQuantity, ExplainableHourlyQuantities, EmptyExplainableObject, create_hourly_usage_df_from_list

T0 = datetime(2025, 1, 1)


def tick(ts):
    import pandas as pd
    return int((pd.Timestamp(ts).tz_localize(None) - pd.Timestamp(T0)).total_seconds() // 60)


def mk_series(spec, unit):
    """spec: (start hour offset, values, missing positions)"""
    import pandas as pd
    start, vals, missing = spec
    df = create_hourly_usage_df_from_list([float(v) for v in vals], T0 + pd.Timedelta(hours=start), unit)
    if missing:
        df = df.drop(df.index[list(missing)])
    return ExplainableHourlyQuantities(df, "series")


SERIES = {"base": (0, [1, 5, 2, 0, 3], ()), "shifted": (2, [4, 1, 1, 2, 6], ()), "disjoint": (9, [2, 2, 7], ()),
          "gap_a": (0, [1, 5, 2, 8, 3], (1,)), "gap_b": (0, [3, 1, 4, 1, 5], (3,)), "negative": (0, [-1, 2.5, -3, 0, 1], ()),
          "fraction": (1, [0.4, 1.2, 2.6], ()), "all_negative": (1, [-1.5, -2, -0.5], ())}
UNITS = {"kg": u.kg, "g": u.g, "hour": u.hour, "dimensionless": u.dimensionless, "percent": u.percent, "GB": u.GB, "MB": u.MB}


def operands():
    ops = {"empty": lambda: EmptyExplainableObject(), "zero": lambda: 0, "three": lambda: 3, "str": lambda: "text"}
    for un in UNITS:
        for v in (0, 1.5, -2):
            ops[f"q({v} {un})"] = (lambda v=v, un=un: ExplainableQuantity(v * UNITS[un], "quantity"))
    for sn in SERIES:
        for un in ("kg", "g", "hour", "dimensionless", "percent", "GB"):
            ops[f"h({sn},{un})"] = (lambda sn=sn, un=un: mk_series(SERIES[sn], UNITS[un]))
    # operands with a past: displayed / unit read, then converted in place to another unit of the same dimension (what update
    # rules do with .to(...)); physically the same quantity, so every operator contract applies unchanged
    def aged(make, unit2):
        def f():
            x = make(); str(x); getattr(x, "unit", None); repr(getattr(x, "value", None))
            y = x.to(unit2)
            return y if y is not None else x
        return f
    for base, u2 in (("h(base,kg)", "g"), ("h(gap_a,GB)", "MB"), ("h(negative,hour)", "min"), ("h(fraction,dimensionless)", "percent"),
                     ("q(1.5 kg)", "g"), ("q(-2 GB)", "MB"), ("q(1.5 percent)", "dimensionless")):
        ops[f"{base}~{u2}"] = aged(ops[base], getattr(u, u2))
    return ops


BINARY = ["__add__", "__radd__", "__sub__", "__rsub__", "__mul__", "__rmul__", "__truediv__", "__rtruediv__", "__eq__", "__lt__", "__gt__", "__round__",
          "np_compared_with:max", "np_compared_with:min", "compare_with_and_return_max"]
UNARY = ["ceil", "abs", "max", "min", "sum", "mean", "copy", "__neg__", "__copy__"]


def to_sym(I, x, units, tag):
    from vf.sym import Expl, Qty, DF, Vec, Unit, Label, PyNum, NONE, Opaque
    if isinstance(x, EmptyExplainableObject):
        e = Expl("empty", None, Label(True, "no value"), fresh_obj=False); e.value = e; return e
    if isinstance(x, ExplainableQuantity):
        un = units.from_pint(x.value.units)
        ph = z3.simplify(z3.RealVal(str(Fraction(float(x.value.magnitude)))) * un.f)     # exact: magnitude x literal factor
        return Expl("eq", Qty(ph, un), Label(True, tag), fresh_obj=False, source=None)
    if isinstance(x, ExplainableHourlyQuantities):
        un = units.from_pint(x.value.dtypes.iloc[0].units)      # read from the data itself, not through the class under test
        ff = z3.simplify(un.f); ff = Fraction(ff.numerator_as_long(), ff.denominator_as_long())
        d = {tick(t): Fraction(float(v)) * ff for t, v in zip(x.value.index, x.value["value"].values._data)}
        ks = sorted(d)
        def inidx(t):
            t = z3.simplify(t) if z3.is_expr(t) else z3.IntVal(t)
            if z3.is_int_value(t): return z3.BoolVal(t.as_long() in d)
            return z3.Or([t == k for k in ks]) if ks else z3.BoolVal(False)
        def val(t):
            t = z3.simplify(t) if z3.is_expr(t) else z3.IntVal(t)
            if z3.is_int_value(t): return z3.RealVal(str(d.get(t.as_long(), Fraction(0))))
            e = z3.RealVal(0)
            for k in ks: e = z3.If(t == k, z3.RealVal(str(d[k])), e)
            return e
        tot = sum(d.values(), Fraction(0))
        vec = Vec(inidx, val, total=z3.RealVal(str(tot)), tmin=z3.IntVal(ks[0]) if ks else None, tmax=z3.IntVal(ks[-1]) if ks else None, n=z3.IntVal(len(ks)))
        return Expl("ehq", DF(vec, un), Label(True, tag), fresh_obj=False, source=None)
    if isinstance(x, bool): return x
    if isinstance(x, int): return PyNum(z3.IntVal(x))
    if isinstance(x, float): return PyNum(z3.RealVal(str(Fraction(x))))
    if isinstance(x, str): return x
    raise TypeError(type(x))


TICKS = list(range(-600, 1500, 60))


def num(e):
    e = z3.simplify(e)
    if z3.is_rational_value(e): return float(Fraction(e.numerator_as_long(), e.denominator_as_long()))
    if z3.is_int_value(e): return float(e.as_long())
    if z3.is_algebraic_value(e): return float(e.approx(20).as_fraction())
    raise ValueError(f"not a numeral: {e}")


def sym_view(I, r):
    from vf.sym import Expl, ExplU, PyNum, Qty
    if isinstance(r, ExplU): r = I.resolve(r)
    if isinstance(r, bool): return {"bool": r}
    if type(r).__name__ == "Opaque" and r.what == "unspecified-bool": return {"anybool": True}
    if z3.is_expr(r) and r.sort() == z3.BoolSort(): return {"bool": z3.is_true(z3.simplify(r))}
    if isinstance(r, PyNum): return {"num": num(r.r)}
    if isinstance(r, Expl):
        if r.kind == "empty": return {"empty": True}
        if r.kind == "eq": return {"q": num(r.value.phys), "dim": r.value.unit.dim}
        if r.kind == "ehq":
            v = r.value.vec
            out = {}
            for t in TICKS:
                if z3.is_true(z3.simplify(v.inidx(z3.IntVal(t)))): out[t] = num(v.val(z3.IntVal(t)))
            return {"hourly": out, "dim": r.value.unit.dim}
    return {"other": str(type(r).__name__)}


def real_view(r, units):
    if isinstance(r, bool) or type(r).__name__ == "bool_": return {"bool": bool(r)}
    if isinstance(r, (int, float)): return {"num": float(r)}
    if isinstance(r, EmptyExplainableObject): return {"empty": True}
    if isinstance(r, ExplainableQuantity):
        return {"q": float(r.value.to_base_units().magnitude), "dim": units.dim_of(r.value)}
    if isinstance(r, ExplainableHourlyQuantities):
        s = r.value["value"].pint.to_base_units()
        return {"hourly": {tick(t): float(v) for t, v in zip(r.value.index, s.values._data)}, "dim": units.dim_of(1 * r.value.dtypes.iloc[0].units)}
    return {"other": type(r).__name__}


def views_equal(a, b):
    if "anybool" in b: return "bool" in a
    if set(a) != set(b): return False
    if "dim" in a and a["dim"] != b["dim"]: return False
    if "q" in a: return H.close(a["q"], b["q"], 1e-9, 1e-12)
    if "num" in a: return H.close(a["num"], b["num"], 1e-9, 1e-12)
    if "bool" in a: return a["bool"] == b["bool"]
    if "hourly" in a:
        if set(a["hourly"]) != set(b["hourly"]): return False
        return all(H.close(v, b["hourly"][k], 1e-9, 1e-12) or (math.isnan(v) and math.isnan(b["hourly"][k])) for k, v in a["hourly"].items())
    return True


_CTX = {}


def ctx():
    if not _CTX:
        from vf.units import Units
        from vf.contracts import explainable as X
        _CTX["units"] = Units(); _CTX["X"] = X
    return _CTX


def evaluate(method, names):
    """(real outcome, contract outcome) for one call"""
    from vf.engine import Engine, SymRaise, Unsupported, Abort
    from vf.interp import Interp
    from vf.engine import Run
    c = ctx(); units, X = c["units"], c["X"]
    ops = operands()
    real_args = [ops[n]() for n in names]
    if method in ("__eq__", "__lt__", "__gt__") and len(real_args) == 2 and all(isinstance(a, ExplainableQuantity) for a in real_args):
        try:
            pa, pb = (float(a.value.to_base_units().magnitude) for a in real_args)
            # the same physical quantity written in two units differs by float noise after conversion: a strict comparison of the two
            # is ill-conditioned in floats (assumption A-REAL), neither outcome is a departure from the contract
            if real_args[0].value.units != real_args[1].value.units and abs(pa - pb) <= 1e-12 * max(abs(pa), abs(pb)) and (pa != 0 or pb != 0): return ("ret", None), ("outside-precondition", "ill-conditioned float comparison"), []
        except Exception:
            pass
    snap = [real_view(a, units) if not isinstance(a, (int, str)) else None for a in real_args]
    try:
        mname, _, extra = method.partition(":")          # "np_compared_with:max" -> method with a literal extra argument
        r = getattr(real_args[0], mname)(*real_args[1:], *([extra] if extra else []))
        if r is NotImplemented: real = ("raise", "TypeError")
        else: real = ("ret", real_view(r, units))
    except Exception as ex:
        real = ("raise", type(ex).__name__)
    after = [real_view(a, units) if not isinstance(a, (int, str)) else None for a in real_args]
    mutated = [i for i, (x, y) in enumerate(zip(snap, after)) if x is not None and not views_equal(x, y)]
    eng = Engine(); eng.run = Run([])
    I = Interp(eng, units, specs=X.SPECS); I.phase = "spec"
    from vf.engine import TT
    def concrete_require(name, cond):
        if isinstance(cond, bool):
            if not cond: raise Abort()
            return
        for k in TICKS:
            if not z3.is_true(z3.simplify(z3.substitute(cond, (TT, z3.IntVal(k))))): raise Abort()
    I.require = concrete_require; I.lib_pre = concrete_require
    I.concrete_ticks = TICKS
    sargs = [to_sym(I, ops[n](), units, f"arg{i}") for i, n in enumerate(names)]
    kind = sargs[0].kind
    mname, _, extra = method.partition(":")
    if extra: sargs = sargs + [extra]
    spec = X.SPECS.get((kind, mname))
    if spec is None:
        con = ("raise", "TypeError")
    else:
        try:
            con = ("ret", sym_view(I, spec(I, *sargs[1:] and [sargs[0]] + sargs[1:] or [sargs[0]])))
        except SymRaise as e:
            con = ("raise", e.exc)
        except Abort:
            con = ("outside-precondition", None)
        except Unsupported as e:
            con = ("unsupported", str(e))
    return real, con, mutated


def _case(args):
    method, names = args
    out = {"case": f"{names[0]}.{method}({', '.join(names[1:])})", "status": "ok", "detail": ""}
    try:
        real, con, mutated = evaluate(method, names)
        if con[0] in ("outside-precondition", "unsupported"): out["status"] = "skip"; out["detail"] = str(con[1]); return out
        if mutated: out["status"] = "operand-changed"; out["detail"] = str(mutated); return out
        if real[0] != con[0]:
            # a TypeError / AttributeError / ValueError family raised by python for an unsupported operand pair is one class of outcome
            out["status"] = "outcome-differs"; out["detail"] = f"real {real[0]} {real[1] if real[0] == 'raise' else ''} / contract {con[0]} {con[1] if con[0] == 'raise' else ''}"; return out
        if real[0] == "raise":
            fam = lambda n: "dim" if n == "DimensionalityError" else "other"
            if fam(real[1]) != fam(con[1]): out["status"] = "exception-differs"; out["detail"] = f"{real[1]} / {con[1]}"
            return out
        if not views_equal(real[1], con[1]): out["status"] = "value-differs"; out["detail"] = f"real {str(real[1])[:150]} / contract {str(con[1])[:150]}"
    except Exception:
        out["status"] = "harness-error"; out["detail"] = traceback.format_exc()[-700:]
    return out


def run(tier, seed, procs=16):
    ops = operands()
    names = list(ops)
    recv = [n for n in names if n.startswith(("q(", "h(", "empty"))]
    if tier == "quick":
        recv = [n for n in recv if "kg" in n or "dimensionless" in n or "percent" in n or n == "empty" or "GB" in n or "~" in n]
        recv = [n for i, n in enumerate(recv) if not n.startswith("h(") or any(s in n for s in ("base", "gap_a", "negative", "all_negative")) or "~" in n]
        others = [n for n in names if not n.startswith("h(") or any(s in n for s in ("base,", "shifted", "gap_b", "disjoint"))]
        others = [n for n in others if not n.startswith("q(") or n.startswith("q(1.5") or n.startswith("q(0 kg") or "~" in n]
    else:
        others = names
    items = [(m, (a, b)) for m in BINARY for a in recv for b in others]
    items += [(m, (a,)) for m in UNARY for a in recv]
    res = H.run_parallel(_case, items, procs)
    viol, samples, nontrivial = [], [], set()
    for r in res:
        if r["status"] == "harness-error": raise RuntimeError("bounded harness error: " + r["detail"])
        if r["status"] == "skip": continue
        nontrivial.add(r["case"])
        if len(samples) < 4 and "h(" in r["case"]: samples.append({"call": r["case"], "result": r["status"]})
        if r["status"] != "ok":
            viol.append({"signature": f"C09|{r['case']}|{r['status']}", "what": f"C09 {r['case']}: {r['status']}: {r['detail'][:250]}", "input": {"call": r["case"]}})
    return {"evaluations": len(res), "distinct_nontrivial": len(nontrivial),
            "rule": "one case = one real method call receiver.method(other) on concrete operands (scalars in 7 units x 3 values, hourly series of 7 index shapes incl. shifted / disjoint / gapped x 6 units, Empty, 0, 3, a string; plus operands with a past: displayed, then converted in place to another unit); "
                    "outcome (value on physical level, dimension, exception class, operands unchanged) compared with the operator contract evaluated on the same operands; "
                    "calls outside a contract's precondition are skipped",
            "samples": samples, "violations": viol, "exhaustive": tier == "thorough",
            "bound": f"{len(BINARY)} binary x {len(recv)} receivers x {len(others)} operands + {len(UNARY)} unary; time zone aware and naive series are not mixed"}
