from . import rel


def run(tier, seed, procs=16):
    return rel.run_c10(tier, seed, procs)
