"""C05 / C06 bounded stand-ins: what-if simulations on real systems.

C05: creating a dated simulation (succeeding or raising) leaves values, identities, links and the dependency graph of the
     baseline unchanged; set/reset toggles return to that baseline.
C06: a simulation dated at the first hour computes what really applying the changes computes; no simulated hour before the
     date; baseline and simulated values are paired both ways; dates outside the period and naive dates are refused."""
from __future__ import annotations
import copy, traceback
from datetime import datetime, timedelta
import pytz
from . import harness as H
from .harness import Q, ModelingUpdate
from .c15 import graph_snapshot


def change_lists(b, spec):
    """{name: (builder of changes on a Built, spec edit)}"""
    C = {}
    j0 = next(iter(spec["jobs"]))
    srv0 = next(iter(spec["servers"])); st0 = next(iter(spec["storages"]))
    C["job.data_transferred"] = (lambda b: [[b[j0].data_transferred, Q((400, "kB"))]], lambda s: s["jobs"][j0].__setitem__("data_transferred", (400, "kB")))
    C["server.ram+power"] = (lambda b: [[b[srv0].ram, Q((96, "GB"))], [b[srv0].power, Q((350, "W"))]],
                             lambda s: (s["servers"][srv0].__setitem__("ram", (96, "GB")), s["servers"][srv0].__setitem__("power", (350, "W"))))
    C["storage.capacity"] = (lambda b: [[b[st0].storage_capacity, Q((2, "TB"))]], lambda s: s["storages"][st0].__setitem__("storage_capacity", (2, "TB")))
    up0 = spec["system"]["ups"][0]
    C["up.devices+=dev"] = (lambda b: [[b[up0].devices, list(b[up0].devices) + [b[next(iter(spec["devices"]))]]]],
                            lambda s: s["ups"][up0]["devices"].append(next(iter(s["devices"]))))
    if len(spec["networks"]) > 1:
        other = [n for n in spec["networks"] if n != spec["ups"][up0]["network"]][0]
        C["up.network->other"] = (lambda b: [[b[up0].network, b[other]]], lambda s: s["ups"][up0].__setitem__("network", other))
    if len(spec["jobs"]) > 1:
        st = next(iter(spec["steps"])); j1 = list(spec["jobs"])[1]
        C["step.jobs+=job1 & job.ram"] = (lambda b: [[b[st].jobs, list(b[st].jobs) + [b[j1]]], [b[j1].ram_needed, Q((120, "MB"))]],
                                          lambda s: (s["steps"][st]["jobs"].append(j1), s["jobs"][j1].__setitem__("ram_needed", (120, "MB"))))
    uj0 = spec["ups"][up0]["journey"]
    if len(spec["journeys"][uj0]["steps"]) > 1:
        # a list change that recomputes the usage pattern itself (same steps, other order)
        C["journey.uj_steps reversed"] = (lambda b: [[b[uj0].uj_steps, list(reversed(list(b[uj0].uj_steps)))]],
                                          lambda s: s["journeys"][uj0].__setitem__("steps", list(reversed(s["journeys"][uj0]["steps"]))))
    return C


def period(b):
    idx = None
    for up in b.system.usage_patterns:
        i = up.utc_hourly_usage_journey_starts.value.index
        lo, hi = i.min(), i.max()
        idx = (lo, hi) if idx is None else (min(idx[0], lo), max(idx[1], hi))
    return idx


def dates_for(b):
    lo, hi = period(b)
    # every usage pattern still active: up to the earliest end
    ends = [up.utc_hourly_usage_journey_starts.value.index.max() for up in b.system.usage_patterns]
    starts = [up.utc_hourly_usage_journey_starts.value.index.min() for up in b.system.usage_patterns]
    common = max(starts) <= min(ends)        # some hour at which every usage pattern is active
    inner = (max(starts) + (min(ends) - max(starts)) / 2).floor("h") if common else None
    hourly = {}
    if common:
        import pandas as pd
        for k, t in enumerate(pd.date_range(max(starts), min(ends), freq="h")): hourly[f"hour{k}"] = t.to_pydatetime()
    d = {**hourly, "first": lo.to_pydatetime(), "first-of-last-pattern": max(starts).to_pydatetime() if len(starts) > 1 and max(starts) > lo else None, "interior": inner.to_pydatetime() if common else None,
         "last-common": min(ends).to_pydatetime() if common else None,
         "before": (lo - timedelta(days=3)).to_pydatetime(), "after": (hi + timedelta(days=400)).to_pydatetime(),
         "naive": lo.to_pydatetime().replace(tzinfo=None)}
    # just outside the modelled period, on either side (1 .. 7 hours: less than any pair of zone offsets of the topologies differ by)
    # "modelled period" is read generously: the span of every hourly series of the computed model (requests started in the last
    # hour of a usage pattern spill over the following hours), so a date is only called outside when nothing at all is modelled there
    glo, ghi = lo, hi
    for o in H.all_objects(b.system):
        o = getattr(o, "_value", o)
        for a in o.calculated_attributes:
            v = getattr(o, a, None)
            for x in (list(v.values()) if isinstance(v, dict) else [v]):
                if isinstance(x, H.ExplainableHourlyQuantities) and x.value.index.tz is not None and len(x.value.index):
                    glo, ghi = min(glo, x.value.index.min()), max(ghi, x.value.index.max())
    for k in (1, 2, 5, 7):
        d[f"before-{k}h"] = (glo - timedelta(hours=k)).to_pydatetime(); d[f"after-{k}h"] = (ghi + timedelta(hours=k)).to_pydatetime()
    # the same instants written in another zone than UTC (an aware datetime denotes an instant, whatever its zone)
    for base in ("first", "interior"):
        if d.get(base) is not None:
            for zn, z in (("kathmandu", "Asia/Kathmandu"), ("paris", "Europe/Paris"), ("losangeles", "America/Los_Angeles")):
                d[f"{base}@{zn}"] = d[base].astimezone(pytz.timezone(z))
    return d


def observe(b):
    """read-only use of the model (while simulated values are switched on): display, explanations, export, copies of list links"""
    from copy import copy as _copy
    from efootprint.api_utils.system_to_json import system_to_json
    for o in H.all_objects(b.system):
        o = getattr(o, "_value", o)
        str(o)
        for k, v in list(o.__dict__.items()):
            if isinstance(v, list) and hasattr(v, "modeling_obj_container"):
                _copy(v); list(v)
        for a in o.calculated_attributes:
            v = getattr(o, a, None)
            for x in (list(v.values()) if isinstance(v, dict) else [v]):
                if hasattr(x, "explain"):
                    try: x.explain()
                    except Exception: pass
    try: system_to_json(b.system, save_calculated_attributes=False)
    except Exception: pass


def _c05_case(args):
    tname, spec, cname, dname, toggles = args
    H.deterministic_ids(10)
    out = {"case": f"{tname}|{cname}|date={dname}|toggles={toggles}", "status": "ok", "diff": [], "shared": H.has_shared_job(spec)}
    try:
        b = H.build(spec)
        before = H.identity_snapshot(b.system); gbefore = graph_snapshot(b.system)
        vbefore = H.snapshot(b.system, inputs=True)
        changes = failing_changes(b, spec)[cname](b) if cname.startswith("FAIL:") else change_lists(b, spec)[cname][0](b)
        date = dates_for(b).get(dname)
        if date is None: out["status"] = "skip"; return out
        sim = None
        try:
            sim = ModelingUpdate(changes, date)
            out["outcome"] = "created"
        except Exception as ex:
            out["outcome"] = f"raised {type(ex).__name__}"
            if H.is_float_cancellation_rejection(ex): out["status"] = "D3"; return out
        def compare(tag):
            d = H.identity_diff(before, H.identity_snapshot(b.system))
            g = graph_snapshot(b.system)
            gd = [f"graph:{k[0]}.{k[1]}" for k in sorted(set(g) | set(gbefore), key=str) if g.get(k) != gbefore.get(k)]
            if d or gd:
                out["status"] = f"baseline-disturbed-{tag}"; out["diff"] = (d + gd)[:12]
                return False
            return True
        if not compare("after-creation"): return out
        if sim is not None:
            for t in toggles:
                if t == "O": observe(b)
                else: (sim.set_updated_values if t == "S" else sim.reset_values)()
            if sim.updated_values_set: sim.reset_values()
            if not compare("after-toggles"): return out
    except Exception:
        out["status"] = "harness-error"; out["error"] = traceback.format_exc()[-800:]
    return out


def failing_changes(b, spec):
    srv0 = next(iter(spec["servers"])); j0 = next(iter(spec["jobs"]))
    from efootprint.abstract_modeling_classes.source_objects import SourceValue
    from .harness import u
    return {"FAIL:recompute(base_ram above capacity)": lambda b: [[b[srv0].base_ram_consumption, Q((1000, "GB"))]],
            "FAIL:validation(wrong dimension)": lambda b: [[b[j0].data_transferred, SourceValue(3 * u.s)]],
            "FAIL:validation(second change invalid)": lambda b: [[b[srv0].ram, Q((96, "GB"))], [b[j0].data_transferred, SourceValue(3 * u.s)]]}


def run_c05(tier, seed, procs=16):
    T = H.topologies()
    tnames = ["single", "two_independent_chains", "server_shared_by_two_journeys", "two_journeys_sharing_job", "dst_fall_back", "dst_spring_forward",
              "disjoint_periods_fixed_offset_zones", "dst_starts_at_repeated_hour"] if tier == "quick" else list(T)
    items = []
    for tname in tnames:
        spec = T[tname]
        b = None
        names = list(change_lists(None, spec).keys())
        for cname in names:
            dnames = ("first", "interior", "last-common", "first-of-last-pattern", "before", "after", "naive", "before-1h", "after-1h", "before-5h", "after-5h", "first@kathmandu", "interior@paris")
            if tier == "thorough": dnames += ("before-2h", "after-2h", "before-7h", "after-7h", "first@paris", "first@losangeles", "interior@kathmandu", "interior@losangeles")
            if tname.startswith("dst_"): dnames += tuple(f"hour{k}" for k in range(1, 9))
            for dname in dnames:
                togs = ("", "SR", "SRSR", "SOR") if dname in ("first", "interior", "first-of-last-pattern") else ("",)
                if tier == "thorough" and dname == "interior": togs += ("SSRR", "RSRS")
                for tg in togs: items.append((tname, spec, cname, dname, tg))
        for cname in failing_changes(None, spec):
            for dname in ("first", "interior"):
                items.append((tname, spec, cname, dname, ""))
    res = H.run_parallel(_c05_case, items, procs)
    viol, samples, nontrivial = [], [], set()
    for r in res:
        if r["status"] == "harness-error": raise RuntimeError("bounded harness error: " + r.get("error", ""))
        if r["status"] == "skip": continue
        nontrivial.add(r["case"])
        if len(samples) < 4: samples.append({"case": r["case"], "outcome": r.get("outcome"), "result": r["status"]})
        if r["status"] == "ok": continue
        sig = f"C05|{r['case']}|{r['status']}|{','.join(r['diff'])[:200]}"
        if r["status"] == "D3": sig = "D3"
        elif "FAIL:recompute" in r["case"] and r["status"] == "baseline-disturbed-after-creation": sig = "D5"
        # shared job (D1): which of the same-id dict entries is the registered child may flip; that shows as ':identity' differences
        # only.  Lost or added dependency edges (id multisets), values and links are never excused.
        elif r["shared"] and r["diff"] and all(x.endswith(":identity") for x in r["diff"]): sig = "D1"
        viol.append({"signature": sig, "what": f"C05 {r['case']}: {r.get('outcome')}: {r['status']} {r['diff'][:6]}", "input": {"case": r["case"]}})
    return {"evaluations": len(res), "distinct_nontrivial": len(nontrivial),
            "rule": "one case = (topology, change list among numeric / link / list / mixed / invalid / failing-in-recomputation, simulation date among first, interior, last common hour, before, after, naive, toggle sequence); "
                    "identity and physical view of every attribute, every link and reverse link, and per value the sets of recorded ancestors / children, compared with the baseline before the simulation",
            "samples": samples, "violations": viol, "exhaustive": False,
            "bound": f"{len(tnames)} topologies x up to 6 change lists + 3 failing ones x 6 dates x toggle sequences of length <= 4"}


def _c06_case(args):
    tname, spec, cname, dname = args
    H.deterministic_ids(10)
    out = {"case": f"{tname}|{cname}|date={dname}", "status": "ok", "diff": [], "shared": H.has_shared_job(spec)}
    try:
        b = H.build(spec)
        mk, sedit = change_lists(b, spec)[cname]
        date = dates_for(b).get(dname)
        if date is None: out["status"] = "skip"; return out
        if dname in ("before", "after", "naive") or dname.startswith(("before-", "after-")):
            try:
                ModelingUpdate(mk(b), date); out["status"] = "bad-date-accepted"
            except Exception as ex:
                # refused: the statement asks for a rejection, not for a particular exception class (a pure list change has no
                # hourly ancestor outside its chain, and the period test then fails with a TypeError on None bounds: still a refusal)
                out["rejected_with"] = type(ex).__name__
            return out
        try:
            sim = ModelingUpdate(mk(b), date)
        except Exception as ex:
            out["status"] = "D3" if H.is_float_cancellation_rejection(ex) else "simulation-raises"; out["diff"] = [f"{type(ex).__name__}: {str(ex)[:100]}"]; return out
        # pairing
        if len(sim.values_to_recompute) != len(sim.recomputed_values): out["status"] = "pairing-length"; return out
        for old, new in zip(sim.values_to_recompute, sim.recomputed_values):
            if old.simulation_twin is not new or new.baseline_twin is not old:
                out["status"] = "twins-not-paired"; out["diff"] = [str(getattr(old, "label", "?"))[:60]]; return out
        import pandas as pd
        # "no simulated hour before the date" is stated for dates at which every usage pattern is still active
        all_active = all(up.utc_hourly_usage_journey_starts.value.index.min() <= pd.Timestamp(date) <= up.utc_hourly_usage_journey_starts.value.index.max()
                         for up in b.system.usage_patterns)
        for new in (sim.recomputed_values if all_active else []):
            vals = list(new.values()) if isinstance(new, dict) else [new]
            for v in vals:
                if isinstance(v, H.ExplainableHourlyQuantities):
                    i = v.value.index
                    imin = i.min()
                    if imin.tzinfo is None: continue
                    if imin < pd.Timestamp(date):
                        out["status"] = "simulated-hour-before-date"; out["diff"] = [f"{v.label}: {imin} < {date}"]; return out
        # the pairing survives switching the simulated values on and off again
        def pairing(tag):
            for old, new in zip(sim.values_to_recompute, sim.recomputed_values):
                if getattr(old, "simulation_twin", None) is not new or getattr(new, "baseline_twin", None) is not old:
                    out["status"] = f"twins-not-paired-{tag}"; out["diff"] = [str(getattr(old, "label", "?"))[:60]]; return False
            return True
        if dname.split("@")[0] in ("interior", "last-common"):
            sim.set_updated_values()
            ok = pairing("while-switched-on")
            sim.reset_values()
            if not ok or not pairing("after-reset"): return out
        if dname.split("@")[0] == "first":
            sim.set_updated_values()
            live = H.snapshot(b.system)
            sim.reset_values()
            spec2 = copy.deepcopy(spec); sedit(spec2)
            twin = H.build(spec2)
            d = H.diff(live, H.snapshot(twin.system))
            if d: out["status"] = "first-hour-simulation-differs-from-real-update"; out["diff"] = [f"{o}.{a}" for o, a in d][:10]
    except Exception:
        out["status"] = "harness-error"; out["error"] = traceback.format_exc()[-800:]
    return out


def run_c06(tier, seed, procs=16):
    T = H.topologies()
    tnames = ["single", "two_independent_chains", "server_shared_by_two_journeys", "two_servers_repeated_job", "dst_fall_back", "dst_spring_forward",
              "disjoint_periods_fixed_offset_zones", "dst_starts_at_repeated_hour"] if tier == "quick" else list(T)
    items = []
    for tname in tnames:
        spec = T[tname]
        for cname in change_lists(None, spec):
            dnames = ("first", "interior", "last-common", "first-of-last-pattern", "before", "after", "naive", "before-1h", "after-1h", "before-5h", "after-5h", "first@kathmandu", "interior@paris")
            if tier == "thorough": dnames += ("before-2h", "after-2h", "before-7h", "after-7h", "first@paris", "first@losangeles", "interior@kathmandu", "interior@losangeles")
            if tname.startswith("dst_"): dnames += tuple(f"hour{k}" for k in range(1, 9))
            for dname in dnames:
                items.append((tname, spec, cname, dname))
    res = H.run_parallel(_c06_case, items, procs)
    viol, samples, nontrivial = [], [], set()
    for r in res:
        if r["status"] == "harness-error": raise RuntimeError("bounded harness error: " + r.get("error", ""))
        if r["status"] == "skip": continue
        nontrivial.add(r["case"])
        if len(samples) < 4: samples.append({"case": r["case"], "result": r["status"]})
        if r["status"] == "ok": continue
        sig = f"C06|{r['case']}|{r['status']}|{','.join(r['diff'])[:200]}"
        if r["status"] == "D3": sig = "D3"
        # shared job: the per-usage-pattern dict entries share one id, the ancestors to filter are de-duplicated by id, so one pattern's
        # series is left unfiltered (replayed natively: 'Hourly job0 occurrences in up0' missing from hourly_quantities_to_filter)
        elif r["shared"] and r["status"] in ("first-hour-simulation-differs-from-real-update", "simulation-raises", "simulated-hour-before-date"): sig = "D1"
        viol.append({"signature": sig, "what": f"C06 {r['case']}: {r['status']} {r['diff'][:6]}", "input": {"case": r["case"]}})
    return {"evaluations": len(res), "distinct_nontrivial": len(nontrivial),
            "rule": "one case = (topology, change list, simulation date); first hour: model with simulated values switched on vs a system built with the changes really applied (every calculated attribute, rel 1e-9); "
                    "any inner date: no simulated hour before the date, baseline/simulated twins paired both ways; dates before/after the period and naive dates must raise ValueError",
            "samples": samples, "violations": viol, "exhaustive": False,
            "bound": f"{len(tnames)} topologies x up to 6 change lists x 12-20 dates (first / interior / last common hour, far and 1-7 h outside the period on both sides, naive, the same instants written in non-UTC zones)"}
