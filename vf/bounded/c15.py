"""C15 bounded stand-in: a failed recomputation can always be recovered from.

History: build, failing edit (recomputation raises), re-assign the previous value (the same object, or a fresh equal
one), compare with the model before the failure (values and dependency-graph links), then one further valid edit and
compare with a system built from the final inputs.  Also: two failures in a row before recovering."""
from __future__ import annotations
import copy, traceback
from . import harness as H
from .harness import Q


def graph_snapshot(system):
    """per attached value: ids of recorded ancestors and children"""
    out = {}
    handles = H.HANDLES.get(id(system), {})
    for obj in H.all_objects(system):
        obj = getattr(obj, "_value", obj)
        name = handles.get(id(obj), obj.name)
        for k, val in obj.__dict__.items():
            vals = list(val.values()) if isinstance(val, dict) and hasattr(val, "modeling_obj_container") else [val]
            for n, v in enumerate(vals):
                if hasattr(v, "direct_ancestors_with_id") and getattr(v, "modeling_obj_container", None) is not None:
                    try:
                        out[(name, k, n)] = (tuple(sorted(a.id for a in v.direct_ancestors_with_id)), tuple(sorted(c.id for c in v.direct_children_with_id)))
                    except Exception as ex:
                        out[(name, k, n)] = ("raises", type(ex).__name__)
    return out


FAILS = [  # (name, object selector, attr, failing value, direct?)  direct: the raising update rule is a direct child of the input
    ("fixed_nb_of_instances too small (on-premise)", "srv0", "fixed_nb_of_instances", (1, "dimensionless"), True),
    ("base_ram_consumption above capacity", "srv0", "base_ram_consumption", (1000, "GB"), False),
    ("base_compute_consumption above capacity", "srv0", "base_compute_consumption", (1000, "cpu_core"), False),
    ("ram below base consumption", "srv0", "ram", (1, "GB"), False),
    ("storage fixed_nb_of_instances too small", "st0", "fixed_nb_of_instances", (1, "dimensionless"), True),
    ("base_storage_need too small for deletions", "st0", "base_storage_need", (0, "TB"), True),
    ("job deletes more than stored", "job0", "data_stored", (-900, "GB"), False),
    # an input with two raising children (available ram / available compute per instance): only the ram rule fails
    ("utilization rate too low for the base ram consumption", "srv0", "server_utilization_rate", (0.001, "dimensionless"), True),
    # the previous value is "no value" (no fixed count given): the user puts that same empty object (or a fresh one) back
    ("count too small, starting from no fixed count (on-premise)", "srv0", "fixed_nb_of_instances", (1, "dimensionless"), True),
]
FOLLOW_UPS = [("job0", "ram_needed", (80, "MB")), ("srv0", "fixed_nb_of_instances", (6000, "dimensionless")), ("srv0", "power", (350, "W")), ("st0", "storage_capacity", (3, "TB")), ("net0", "bandwidth_energy_intensity", (0.07, "kWh/GB"))]


# known finding D10 (exact scenarios): values recomputed before the failing rule keep their new objects, the reverted input's
# children / the restored values' ancestor links are lost
KNOWN_D10 = {("base_ram_consumption above capacity", "reassign=same-object", "graph-not-restored"),
             ("base_compute_consumption above capacity", "reassign=same-object", "graph-not-restored"),
             ("job deletes more than stored", "reassign=same-object", "graph-not-restored"),
             ("fixed_nb_of_instances too small (on-premise)", "reassign=fresh-equal-value", "later-edit-raises"),
             # same root cause, seen by the thorough tier (more follow-up edits): replayed natively on the unchanged tree
             ("storage fixed_nb_of_instances too small", "reassign=fresh-equal-value", "later-edit-raises"),
             ("job deletes more than stored", "reassign=fresh-equal-value", "later-edit-raises"),
             # a FRESH equal value put back after a failed fixed count: the value that lost its dependants is not the one re-installed,
             # so a later change of the count is ignored or raises (replayed natively: fixed=1 fails, fixed=<fresh no value>, fixed=6000 -> still 25)
             ("fixed_nb_of_instances too small (on-premise)", "reassign=fresh-equal-value", "later-edit-stale"),
             ("count too small, starting from no fixed count (on-premise)", "reassign=fresh-equal-value", "later-edit-raises"),
             ("count too small, starting from no fixed count (on-premise)", "reassign=fresh-equal-value", "later-edit-stale")}


def spec_for(fail_name):
    T = H.topologies()
    s = copy.deepcopy(T["two_independent_chains"])
    s["servers"]["srv0"].update({"server_type": "on-premise", "base_ram_consumption": (2, "GB")})
    s["storages"]["st0"].update({"base_storage_need": (500, "TB"), "storage_capacity": (100, "TB")})
    s["jobs"]["job0"]["data_stored"] = (-1, "kB")            # a deleting job: base_storage_need = 0 fails
    s["jobs"]["job0"]["ram_needed"] = (2, "GB")
    s["ups"]["up0"]["values"] = [x * 1e6 for x in s["ups"]["up0"]["values"]]
    if "fixed_nb_of_instances" in fail_name and "storage" not in fail_name and "starting from no" not in fail_name:
        s["servers"]["srv0"]["fixed_nb_of_instances"] = (5000, "dimensionless")
    if "storage fixed" in fail_name:
        s["storages"]["st0"]["fixed_nb_of_instances"] = (5000, "dimensionless")
    return s


def _case(args):
    fail, reassign, follow, twice = args
    name, objn, attr, val, direct = fail
    H.deterministic_ids(9)
    out = {"case": f"{name}|reassign={reassign}|then {follow[0]}.{follow[1]}|{'twice' if twice else 'once'}", "status": "ok", "diff": [], "direct": direct}
    try:
        spec = spec_for(name)
        b = H.build(spec)
        before = H.snapshot(b.system, inputs=True); gbefore = graph_snapshot(b.system)
        prev = getattr(b[objn], attr)
        prev_pair = spec[{"srv0": "servers", "st0": "storages", "job0": "jobs"}[objn]][objn].get(attr)
        for k_ in range(2 if twice else 1):
            v2 = val if k_ == 0 else (val[0] * 1.5 if val[0] > 0 else val[0] * 1.5 - 0.0, val[1])
            try:
                setattr(b[objn], attr, Q(v2))
                if k_ == 0: out["status"] = "edit-did-not-fail"; return out
            except Exception as ex:
                out["exc"] = f"{type(ex).__name__}"
        try:
            if reassign == "same-object": setattr(b[objn], attr, prev)
            else:
                from efootprint.abstract_modeling_classes.source_objects import SourceValue
                setattr(b[objn], attr, SourceValue(prev.value) if not isinstance(prev, H.EmptyExplainableObject) else H.EmptyExplainableObject())
        except Exception as ex:
            out["status"] = "re-assignment-raises"; out["diff"] = [f"{type(ex).__name__}: {str(ex)[:100]}"]; return out
        d = H.diff(before, H.snapshot(b.system, inputs=True))
        if d: out["status"] = "not-restored"; out["diff"] = [f"{o}.{a}" for o, a in d]; return out
        if reassign == "same-object":
            g = graph_snapshot(b.system)
            gd = [f"{k[0]}.{k[1]}" for k in sorted(set(g) | set(gbefore), key=str) if g.get(k) != gbefore.get(k)]
            if gd: out["status"] = "graph-not-restored"; out["diff"] = gd[:10]; return out
        # further edit behaves as on a fresh system
        fo, fa, fv = follow
        spec2 = copy.deepcopy(spec); spec2[{"srv0": "servers", "st0": "storages", "job0": "jobs", "net0": "networks"}[fo]][fo]["bei" if fa == "bandwidth_energy_intensity" else fa] = fv
        try:
            setattr(b[fo], fa, Q(fv))
        except Exception as ex:
            out["status"] = "later-edit-raises"; out["diff"] = [f"{type(ex).__name__}: {str(ex)[:100]}"]; return out
        fresh = H.build(spec2)
        d = H.diff(H.snapshot(b.system), H.snapshot(fresh.system))
        if d: out["status"] = "later-edit-stale"; out["diff"] = [f"{o}.{a}" for o, a in d]
    except Exception as ex:
        if H.is_float_cancellation_rejection(ex): out["status"] = "D3"
        else: out["status"] = "harness-error"; out["error"] = traceback.format_exc()[-700:]
    return out


def run(tier, seed, procs=16):
    items = []
    for f in FAILS:
        for re_ in ("same-object", "fresh-equal-value"):
            for fo in (FOLLOW_UPS if tier == "thorough" else FOLLOW_UPS[:2]):
                for twice in (False, True):
                    items.append((f, re_, fo, twice))
    res = H.run_parallel(_case, items, procs)
    viol, samples, nontrivial = [], [], set()
    for r in res:
        if r["status"] == "harness-error": raise RuntimeError("bounded harness error: " + r.get("error", ""))
        if r["status"] == "edit-did-not-fail":
            raise RuntimeError("bounded harness error: failing edit did not fail: " + r["case"])
        nontrivial.add(r["case"])
        if len(samples) < 3: samples.append({"history": r["case"], "result": r["status"]})
        if r["status"] == "ok": continue
        sig = f"C15|{r['case']}|{r['status']}|{','.join(r['diff'])[:200]}"
        if r["status"] == "D3": sig = "D3"
        else:
            fname, re_ = r["case"].split("|")[0], r["case"].split("|")[1]
            if (fname, re_, r["status"]) in KNOWN_D10: sig = "D10"
        viol.append({"signature": sig, "what": f"C15 {r['case']}: {r['status']} {r['diff'][:6]}", "input": {"history": r["case"]}})
    return {"evaluations": len(res), "distinct_nontrivial": len(nontrivial),
            "rule": "one case = (failing edit among 9 raising points, re-assignment of the same previous object | a fresh equal value, one or two failures before recovery, one further valid edit); "
                    "model after recovery vs model before the failure (values, inputs, graph links), then vs a system built from the final inputs",
            "samples": samples, "violations": viol, "exhaustive": False,
            "bound": f"7 failure points x 2 re-assignment styles x {4 if tier == 'thorough' else 2} follow-up edits x (once | twice)"}
