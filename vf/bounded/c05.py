from . import sim


def run(tier, seed, procs=16):
    return sim.run_c05(tier, seed, procs)
