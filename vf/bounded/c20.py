"""C20 bounded stand-in: hourly-series builders against an independent oracle (python datetime arithmetic, no pandas)."""
from __future__ import annotations
import itertools, math, random, traceback
from datetime import datetime, timedelta
from . import harness as H
from .harness import u


def oracle_index(start, n):
    return [start + timedelta(hours=i) for i in range(n)]


def check_frame(df, start, unit, n_expected=None):
    """one value per hour, starting at start, contiguous, in the requested unit"""
    fails = []
    idx = [t.to_pydatetime() for t in df.index]
    if not idx: return ["empty"], idx
    if idx[0] != start: fails.append(f"starts-at:{idx[0]}!={start}")
    if any((b - a) != timedelta(hours=1) for a, b in zip(idx, idx[1:])): fails.append("not-contiguous-hourly")
    if df.dtypes.iloc[0].units != unit: fails.append(f"unit:{df.dtypes.iloc[0].units}!={unit}")
    if n_expected is not None and len(idx) != n_expected: fails.append(f"length:{len(idx)}!={n_expected}")
    return fails, idx


def vals(df): return [float(x) for x in df["value"].values._data]


STARTS = [datetime(2025, 1, 1), datetime(2024, 2, 27, 18), datetime(2025, 6, 12, 10, 30), datetime(2024, 12, 29, 23), datetime(2025, 3, 29, 5), datetime(2028, 2, 28), datetime(2023, 12, 30, 7), datetime(2026, 11, 3, 21, 45, 30)]
UNITS = [u.dimensionless, u.GB, u.kg]


def _case(args):
    kind, p = args
    from efootprint.builders import time_builders as TB
    out = {"case": f"{kind}|{p}", "status": "ok", "fails": []}
    try:
        if kind == "from_list":
            lst, start, unit, wrap = p
            r = TB.create_source_hourly_values_from_list(lst, start, unit) if wrap else TB.create_hourly_usage_df_from_list(lst, start, unit)
            df = r.value if wrap else r
            f, idx = check_frame(df, start, unit, len(lst))
            if [round(x, 12) for x in vals(df)] != [round(float(x), 12) for x in lst]: f.append("values-not-element-for-element")
            out["fails"] = f
        elif kind == "frequency":
            span_h, vol, freq, days, hours, start, unit = p
            r = TB.create_hourly_usage_from_frequency(span_h * u.hour, vol, freq, days, hours, start, unit)
            df = r.value
            n = int(math.floor(span_h + 1e-9)) + 1
            f, idx = check_frame(df, start, unit, n)
            ad = days if days is not None else ([0] if freq == "weekly" else [1])
            hs = hours if hours is not None else [0]
            def match(t):
                if t.hour not in hs: return False
                if freq == "daily": return True
                if freq == "weekly": return t.weekday() in ad
                if freq == "monthly": return t.day in ad
                return t.timetuple().tm_yday in ad
            exp = [float(vol) if match(t) else 0.0 for t in idx]
            if vals(df) != exp:
                bad = [str(t) for t, a, b in zip(idx, vals(df), exp) if a != b][:3]
                f.append(f"volume-not-at-exactly-the-matching-hours:{bad}")
            out["fails"] = f
        elif kind == "daily_volume":
            span_h, vol, hours, start, unit = p
            r = TB.create_hourly_usage_from_daily_volume_and_list_of_hours(span_h * u.hour, vol, hours, start, unit)
            df = r.value
            f, idx = check_frame(df, start, unit, int(math.floor(span_h + 1e-9)) + 1)
            v = vals(df)
            by_day = {}
            for t, x in zip(idx, v): by_day.setdefault(t.date(), []).append((t.hour, x))
            for d, hv in by_day.items():
                if len(hv) == 24 and not H.close(sum(x for _, x in hv), float(vol), 1e-9, 1e-9): f.append(f"full-day-sum:{d}")
            exp = [float(vol) / len(hours) if t.hour in hours else 0.0 for t in idx]
            if not all(H.close(a, b, 1e-12, 1e-12) for a, b in zip(v, exp)): f.append("volume-not-at-exactly-the-chosen-hours")
            out["fails"] = f
        elif kind == "shape":
            name, span_h, start, unit, extra = p
            if name == "linear": r = TB.linear_growth_hourly_values(span_h * u.hour, extra[0], extra[1], start, unit)
            elif name == "sinusoidal": r = TB.sinusoidal_fluct_hourly_values(span_h * u.hour, extra[0], extra[1], start, unit)
            elif name == "daily": r = TB.daily_fluct_hourly_values(span_h * u.hour, extra[0], extra[1], start, unit)
            else:
                r = None
                df = TB.create_random_hourly_usage_df(span_h * u.hour, 1, 10, start, unit)
            if r is not None: df = r.value
            n = int(span_h) if name != "random" else int(math.floor(span_h + 1e-9)) + 1
            f, idx = check_frame(df, start, unit, n)
            v = vals(df)
            if name == "linear":
                exp = [extra[0] + (extra[1] - extra[0]) * i / (n - 1) if n > 1 else extra[0] for i in range(n)]
                if not all(H.close(a, b, 1e-9, 1e-9) for a, b in zip(v, exp)): f.append("linear-values")
            if name == "sinusoidal":
                exp = [extra[0] * math.sin(2 * math.pi * i / extra[1]) for i in range(n)]
                if not all(H.close(a, b, 1e-9, 1e-9) for a, b in zip(v, exp)): f.append("sinusoidal-values")
            if name == "daily":
                exp = [1 + extra[0] * math.sin(3 * math.pi / 2 + 2 * math.pi * (((start.hour + i) % 24) - extra[1]) / 24) for i in range(n)]
                if not all(H.close(a, b, 1e-9, 1e-9) for a, b in zip(v, exp)): f.append("daily-fluctuation-values")
            if name == "random" and not all(1 <= x < 10 for x in v): f.append("random-values-out-of-range")
            out["fails"] = f
        elif kind == "rejects":
            what = p
            try:
                if what == "bad-frequency": TB.create_hourly_usage_from_frequency(48 * u.hour, 1, "hourly")
                else: TB.create_hourly_usage_from_frequency(48 * u.hour, 1, "daily", active_days=[1])
                out["fails"] = ["invalid-arguments-accepted"]
            except ValueError: pass
        if out["fails"]: out["status"] = "fails"
    except Exception:
        out["status"] = "harness-error"; out["error"] = traceback.format_exc()[-700:]
    return out


def run(tier, seed, procs=16):
    rnd = random.Random(seed)
    items = []
    for lst in ([1], [0, 0], [1, 2.5, 3], [0.1] * 30, list(range(49))):
        for start in STARTS[:4]:
            for unit in UNITS:
                for wrap in (False, True): items.append(("from_list", (lst, start, unit, wrap)))
    # "the requested unit": every unit the registry knows by a plain name in the dimensions the library uses (prefixed units included:
    # compact symbols such as kt / cd / dB collide with other units, so the unit has to survive however the builder spells it)
    many = []
    for nm in ("kilotonne", "megatonne", "tonne", "gram", "milligram", "centiday", "day", "minute", "millisecond", "decibyte", "kilobyte", "terabyte", "petabyte",
               "kilowatt_hour", "megawatt_hour", "joule", "kilowatt", "milliwatt", "cpu_core", "gpu", "percent", "kilometer", "kelvin", "hectare", "knot", "decibel"):
        try: many.append(getattr(u, nm))
        except Exception: pass
    for unit in many: items.append(("from_list", ([1, 2.5, 3], STARTS[0], unit, False)))
    for unit in many[:8]: items.append(("shape", ("linear", 30, STARTS[0], unit, (1, 10))))
    spans = [24, 30, 47.5, 24 * 8, 24 * 40] + ([24 * 400] if tier == "thorough" else [])
    freq_params = [("daily", None, None), ("daily", None, [0, 8, 23]), ("weekly", None, None), ("weekly", [0, 6], [9]), ("weekly", [3], [0, 12]),
                   ("monthly", None, None), ("monthly", [1, 29, 31], [7]), ("yearly", None, None), ("yearly", [60, 61, 366], [9]), ("yearly", [1, 59, 365], [0, 23])]
    for span in spans:
        for freq, days, hours in freq_params:
            if freq == "yearly" and span < 24 * 40 and tier == "quick": continue
            for start in STARTS:
                items.append(("frequency", (span, rnd.choice([1, 3.5, 120]), freq, days, hours, start, rnd.choice(UNITS))))
    for span in (24, 47.5, 24 * 5 + 3):
        for hours in ([0], [8, 12, 18], list(range(24)), [23, 1]):
            for start in STARTS:
                items.append(("daily_volume", (span, rnd.choice([10, 99.5]), hours, start, rnd.choice(UNITS))))
    for name, extra in (("linear", (1, 10)), ("linear", (5, 5)), ("sinusoidal", (3, 24)), ("daily", (0.5, 4)), ("daily", (1, 0)), ("random", None)):
        for span in (24, 36.5, 100):
            for start in STARTS[:4]:
                items.append(("shape", (name, span, start, rnd.choice(UNITS), extra)))
    items += [("rejects", "bad-frequency"), ("rejects", "active-days-with-daily")]
    res = H.run_parallel(_case, items, procs)
    viol, samples, nontrivial = [], [], set()
    for r in res:
        if r["status"] == "harness-error": raise RuntimeError("bounded harness error: " + r.get("error", ""))
        nontrivial.add(r["case"])
        if len(samples) < 4 and "frequency" in r["case"]: samples.append({"call": r["case"][:200], "result": r["status"]})
        if r["status"] != "ok":
            viol.append({"signature": f"C20|{r['case'][:200]}|{';'.join(r['fails'])[:200]}", "what": f"C20 {r['case'][:200]}: {r['fails'][:4]}", "input": {"call": r["case"]}})
    return {"evaluations": len(res), "distinct_nontrivial": len(nontrivial),
            "rule": "one case = one call of a time-line helper (list, frequency daily/weekly/monthly/yearly with active days and hours, daily volume over chosen hours, linear / sinusoidal / daily fluctuation, random) "
                    "over start dates incl. leap years, year ends and non-midnight hours, spans that are not whole days, three units; index, unit and values compared with an oracle written with datetime arithmetic only",
            "samples": samples, "violations": viol, "exhaustive": False,
            "bound": f"6 start dates x {len(spans)} spans (up to {max(spans) / 24:.0f} days) x 10 frequency settings; lists up to 49 values"}
