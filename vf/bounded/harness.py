"""Bounded tier: run-time twin on the REAL code (efootprint imported from /repo's working tree).

Universe: declarative system specs (small topologies with every sharing pattern) built through the public API,
a snapshot / comparison of every calculated attribute on physical (base-unit) values, and an edit alphabet whose
members can be applied both to a live system and to the spec (so that 'freshly built from the same final inputs'
is a second build of the edited spec).  Nothing here is ever counted as proved.
"""
from __future__ import annotations
import os
import copy as _copy, itertools, logging, math, os, random, sys, uuid, warnings
from datetime import datetime, timedelta

warnings.simplefilter("ignore")
REPO = os.environ.get("VF_REPO", "/repo")
if REPO not in sys.path: sys.path.insert(0, REPO)

_counter = itertools.count()


def deterministic_ids(seed=0):
    """uuid4 -> deterministic stream (the harness' own determinism; C19 varies ids separately)"""
    rnd = random.Random(seed)
    uuid.uuid4 = lambda: uuid.UUID(int=rnd.getrandbits(128), version=4)


deterministic_ids(0)
from efootprint.logger import logger
logger.setLevel(logging.CRITICAL)
for _h in logger.handlers: _h.setLevel(logging.CRITICAL)
import numpy as np
import pandas as pd
import pytz
from efootprint.abstract_modeling_classes.explainable_objects import (EmptyExplainableObject, ExplainableQuantity,
                                                                      ExplainableHourlyQuantities)
from efootprint.abstract_modeling_classes.explainable_object_base_class import ExplainableObject
from efootprint.abstract_modeling_classes.explainable_object_dict import ExplainableObjectDict
from efootprint.abstract_modeling_classes.modeling_update import ModelingUpdate
from efootprint.abstract_modeling_classes.source_objects import SourceValue, SourceHourlyValues, SourceObject
from efootprint.builders.time_builders import create_hourly_usage_df_from_list
from efootprint.constants.units import u
from efootprint.core.country import Country
from efootprint.core.hardware.device import Device
from efootprint.core.hardware.network import Network
from efootprint.core.hardware.server import Server
from efootprint.core.hardware.server_base import ServerTypes
from efootprint.core.hardware.storage import Storage
from efootprint.core.system import System
from efootprint.core.usage.job import Job
from efootprint.core.usage.usage_journey import UsageJourney
from efootprint.core.usage.usage_journey_step import UsageJourneyStep
from efootprint.core.usage.usage_pattern import UsagePattern

TZ = {"paris": "Europe/Paris", "kathmandu": "Asia/Kathmandu", "stjohns": "America/St_Johns", "utc": "UTC", "gmt+3": "Etc/GMT-3"}


# ---------------------------------------------------------------------------------------------------- specs
def base_spec():
    """one server, one job, one step, one journey, one usage pattern"""
    return {
        "storages": {"st0": {}},
        "servers": {"srv0": {"storage": "st0", "server_type": "autoscaling"}},
        "jobs": {"job0": {"server": "srv0"}},
        "steps": {"step0": {"jobs": ["job0"], "user_time_spent": (20, "min")}},
        "journeys": {"uj0": {"steps": ["step0"]}},
        "devices": {"dev0": {}},
        "networks": {"net0": {}},
        "countries": {"c0": {"tz": "paris", "aci": (85, "g/kWh")}},
        "ups": {"up0": {"journey": "uj0", "devices": ["dev0"], "network": "net0", "country": "c0",
                        "start": "2025-01-01", "values": [1, 3, 0, 2, 5, 1]}},
        "system": {"ups": ["up0"]},
    }


def topologies():
    """named small systems covering the sharing patterns of the properties' quantifiers"""
    T = {}
    s = base_spec(); T["single"] = s
    # job shared by two usage patterns through one journey; different windows
    s = base_spec()
    s["ups"]["up1"] = {"journey": "uj0", "devices": ["dev0"], "network": "net0", "country": "c0", "start": "2025-01-01T03", "values": [2, 0, 1, 4, 1, 1]}
    s["system"]["ups"] = ["up0", "up1"]; T["journey_shared_by_two_ups"] = s
    # two journeys sharing a job, two networks, two countries in different zones
    s = base_spec()
    s["jobs"]["job1"] = {"server": "srv0", "data_stored": (-30, "kB"), "request_duration": (2.5, "hour")}
    s["steps"]["step1"] = {"jobs": ["job1", "job0"], "user_time_spent": (70, "min")}
    s["journeys"]["uj1"] = {"steps": ["step1", "step0"]}
    s["networks"]["net1"] = {"bei": (0.12, "kWh/GB")}
    s["countries"]["c1"] = {"tz": "kathmandu", "aci": (635, "g/kWh")}
    s["ups"]["up1"] = {"journey": "uj1", "devices": ["dev0"], "network": "net1", "country": "c1", "start": "2025-01-01", "values": [1, 1, 2, 0, 3, 1]}
    s["system"]["ups"] = ["up0", "up1"]
    s["storages"]["st0"] = {"base_storage_need": (5, "TB")}
    T["two_journeys_sharing_job"] = s
    # two servers (on-premise + serverless), shared network, job repeated in a journey, multi-hour step
    s = base_spec()
    s["storages"]["st1"] = {"data_storage_duration": (3, "hour"), "base_storage_need": (1, "TB")}
    s["servers"]["srv1"] = {"storage": "st1", "server_type": "serverless"}
    s["servers"]["srv0"]["server_type"] = "on-premise"
    s["jobs"]["job1"] = {"server": "srv1", "request_duration": (90, "min"), "data_transferred": (3, "MB")}
    s["steps"]["step1"] = {"jobs": ["job1", "job1"], "user_time_spent": (130, "min")}
    s["journeys"]["uj0"]["steps"] = ["step0", "step1", "step0"]
    s["countries"]["c1"] = {"tz": "stjohns", "aci": (300, "g/kWh")}
    s["devices"]["dev1"] = {"power": (1, "W"), "cff": (30, "kg")}
    s["ups"]["up1"] = {"journey": "uj0", "devices": ["dev1", "dev0"], "network": "net0", "country": "c1", "start": "2025-01-02", "values": [0.5, 2, 2, 1, 0, 4]}
    s["system"]["ups"] = ["up0", "up1"]
    T["two_servers_repeated_job"] = s
    # journey without any job + journey with jobs (object-chain coverage), fixed instances
    s = base_spec()
    s["steps"]["step_nojob"] = {"jobs": [], "user_time_spent": (5, "min")}
    s["journeys"]["uj_nojob"] = {"steps": ["step_nojob"]}
    s["ups"]["up1"] = {"journey": "uj_nojob", "devices": ["dev0"], "network": "net0", "country": "c0", "start": "2025-01-01", "values": [1, 1, 1, 1, 1, 1]}
    s["system"]["ups"] = ["up0", "up1"]
    s["servers"]["srv0"].update({"server_type": "on-premise", "fixed_nb_of_instances": (5000, "dimensionless")})
    T["jobless_journey"] = s
    # two independent chains (no job shared between usage patterns): strict ground for every comparison
    s = base_spec()
    s["storages"]["st1"] = {"base_storage_need": (2, "TB")}
    s["servers"]["srv1"] = {"storage": "st1", "server_type": "serverless"}
    s["jobs"]["job1"] = {"server": "srv1", "request_duration": (3, "min"), "data_transferred": (1, "MB")}
    s["jobs"]["job2"] = {"server": "srv1", "data_stored": (1, "MB")}
    s["steps"]["step1"] = {"jobs": ["job1", "job2", "job1"], "user_time_spent": (61, "min")}
    s["steps"]["step2"] = {"jobs": ["job2"], "user_time_spent": (10, "min")}
    s["journeys"]["uj1"] = {"steps": ["step2", "step1"]}      # job1 comes after a step shorter than one hour
    s["networks"]["net1"] = {"bei": (0.12, "kWh/GB")}
    s["countries"]["c1"] = {"tz": "kathmandu", "aci": (635, "g/kWh")}
    s["devices"]["dev1"] = {"power": (1, "W"), "cff": (30, "kg")}
    s["ups"]["up1"] = {"journey": "uj1", "devices": ["dev1"], "network": "net1", "country": "c1", "start": "2025-01-01T02", "values": [2, 1, 0, 0, 3, 1, 2]}
    s["system"]["ups"] = ["up0", "up1"]
    T["two_independent_chains"] = s
    # names are labels, not identifiers: the two chains again, every object of a class carrying the same display name
    s = _copy.deepcopy(T["two_independent_chains"])
    for sec, label in (("storages", "storage"), ("servers", "server"), ("jobs", "job"), ("steps", "step"), ("journeys", "journey"), ("devices", "device"),
                       ("networks", "network"), ("countries", "country"), ("ups", "usage pattern")):
        for n in s[sec]: s[sec][n]["display_name"] = label
    s["ups"]["up0"]["devices"] = ["dev0", "dev1"]        # two different devices with the same display name in one usage pattern
    T["same_display_names"] = s
    # a job defined on the server but used by no step (it never runs), next to two jobs that do; and a usage pattern whose journey
    # lasts 0 minutes (its footprints are "no value" until the step is given a duration)
    s = base_spec()
    s["jobs"]["job1"] = {"server": "srv0", "request_duration": (40, "min"), "ram_needed": (300, "MB"), "data_transferred": (2, "MB")}
    s["jobs"]["job_unused"] = {"server": "srv0", "ram_needed": (5, "GB")}
    s["steps"]["step0"]["jobs"] = ["job0", "job1"]
    s["steps"]["step_zero"] = {"jobs": [], "user_time_spent": (0, "min")}
    s["journeys"]["uj_zero"] = {"steps": ["step_zero"]}
    s["devices"]["dev1"] = {"power": (1, "W"), "cff": (30, "kg")}
    s["ups"]["up1"] = {"journey": "uj_zero", "devices": ["dev1"], "network": "net0", "country": "c0", "start": "2025-01-01T01", "values": [2, 1, 1, 3, 1, 2]}
    s["system"]["ups"] = ["up0", "up1"]
    s["storages"]["st0"] = {"base_storage_need": (1, "TB")}
    T["unused_job_and_zero_duration_journey"] = s
    # a step without any job (reading time) between two steps with jobs: it still delays what follows
    s = base_spec()
    s["jobs"]["job1"] = {"server": "srv0", "request_duration": (3, "min"), "data_transferred": (2, "MB"), "data_stored": (1, "MB")}
    s["steps"]["step_idle"] = {"jobs": [], "user_time_spent": (95, "min")}
    s["steps"]["step1"] = {"jobs": ["job1", "job0"], "user_time_spent": (10, "min")}
    s["journeys"]["uj0"]["steps"] = ["step0", "step_idle", "step1"]
    s["storages"]["st0"] = {"base_storage_need": (1, "TB")}
    T["idle_step_between_job_steps"] = s
    # one journey used by two usage patterns that carry the same display name (names are labels)
    s = _copy.deepcopy(T["journey_shared_by_two_ups"])
    for n in s["ups"]: s["ups"][n]["display_name"] = "Web users"
    s["networks"]["net1"] = {"bei": (0.12, "kWh/GB")}; s["ups"]["up1"]["network"] = "net1"      # ... and reach the journey over two different networks
    T["shared_journey_same_named_patterns"] = s
    # two servers whose storages carry the same display name, both used by the jobs of ONE journey
    s = base_spec()
    s["storages"]["st0"] = {"display_name": "Default SSD storage", "base_storage_need": (1, "TB")}
    s["storages"]["st1"] = {"display_name": "Default SSD storage", "base_storage_need": (3, "TB"), "data_replication_factor": (2, "dimensionless")}
    s["servers"]["srv1"] = {"storage": "st1", "server_type": "autoscaling"}
    s["jobs"]["job1"] = {"server": "srv1", "data_stored": (2, "MB"), "request_duration": (3, "min")}
    s["steps"]["step0"]["jobs"] = ["job0", "job1"]
    T["same_named_storages_in_one_journey"] = s
    # usage patterns over disjoint periods sharing a server (distinct jobs); countries in fixed-offset zones (UTC, UTC+3)
    s = base_spec()
    s["jobs"]["job1"] = {"server": "srv0", "request_duration": (4, "min"), "data_transferred": (1, "MB")}
    s["steps"]["step1"] = {"jobs": ["job1"], "user_time_spent": (12, "min")}
    s["journeys"]["uj1"] = {"steps": ["step1"]}
    s["countries"]["c0"] = {"tz": "utc", "aci": (85, "g/kWh"), "short": "XXX"}          # (the two countries carry the same short name: a label)
    s["countries"]["c1"] = {"tz": "gmt+3", "aci": (300, "g/kWh"), "short": "XXX"}
    s["devices"]["dev1"] = {"power": (2, "W"), "cff": (40, "kg")}
    s["ups"]["up1"] = {"journey": "uj1", "devices": ["dev1"], "network": "net0", "country": "c1", "start": "2025-01-04", "values": [2, 1, 3, 1, 1, 2]}
    s["system"]["ups"] = ["up0", "up1"]
    s["storages"]["st0"] = {"base_storage_need": (1, "TB")}
    T["disjoint_periods_fixed_offset_zones"] = s
    # a local series that BEGINS at the hour repeated by the autumn clock change
    s = base_spec(); s["ups"]["up0"].update({"start": "2025-10-26T02", "values": [4, 2, 3, 1, 5, 2]})
    s["jobs"]["job1"] = {"server": "srv0", "request_duration": (3, "min")}
    s["steps"]["step1"] = {"jobs": ["job1"], "user_time_spent": (70, "min")}
    s["journeys"]["uj0"]["steps"] = ["step0", "step1"]
    s["storages"]["st0"] = {"base_storage_need": (1, "TB")}
    T["dst_starts_at_repeated_hour"] = s
    # one server shared by the (distinct) jobs of two journeys; shared network, country and device
    s = base_spec()
    s["jobs"]["job1"] = {"server": "srv0", "request_duration": (40, "min"), "ram_needed": (300, "MB")}
    s["steps"]["step1"] = {"jobs": ["job1"], "user_time_spent": (45, "min")}
    s["journeys"]["uj1"] = {"steps": ["step1"]}
    s["ups"]["up1"] = {"journey": "uj1", "devices": ["dev0"], "network": "net0", "country": "c0", "start": "2025-01-01T04", "values": [1, 2, 3, 4, 5, 6]}
    s["system"]["ups"] = ["up0", "up1"]
    s["storages"]["st0"] = {"base_storage_need": (1, "TB")}
    T["server_shared_by_two_journeys"] = s
    # local series spanning the daylight-saving transitions of the usage pattern's country
    s = base_spec(); s["ups"]["up0"].update({"start": "2025-10-25T21", "values": [1, 2, 3, 4, 5, 6, 7, 8, 9, 10]})
    s["storages"]["st0"] = {"base_storage_need": (1, "TB")}
    T["dst_fall_back"] = s
    s = base_spec(); s["ups"]["up0"].update({"start": "2025-03-29T22", "values": [1, 2, 3, 4, 5, 6, 7, 8]})
    s["storages"]["st0"] = {"base_storage_need": (1, "TB")}
    T["dst_spring_forward"] = s
    # inputs expressed in unusual but legal units (percent, days, kW, MB ...)
    s = base_spec()
    s["servers"]["srv0"].update({"power_usage_effectiveness": (120, "percent"), "server_utilization_rate": (90, "percent"), "ram": (128000, "MB"),
                                 "power": (0.3, "kW"), "lifespan": (2191.5, "day")})
    s["storages"]["st0"] = {"data_replication_factor": (300, "percent"), "storage_capacity": (1000, "GB"), "base_storage_need": (2000, "GB"), "idle_power": (1, "W")}
    s["jobs"]["job0"].update({"data_transferred": (0.15, "MB"), "request_duration": (0.02, "min")})
    T["unusual_units"] = s
    # user-defined sources: same name with different links, a source without link
    s = base_spec()
    s["servers"]["srv0"].update({"power": (280, "W", ("Internal measurement campaign", "https://example.org/2023")),
                                 "idle_power": (40, "W", ("Internal measurement campaign", "https://example.org/2024")),
                                 "ram": (64, "GB", ("Vendor datasheet", None)),
                                 "lifespan": (6, "year", ("IEA (2023) [draft] + annex?", "https://example.org/iea"))})
    s["jobs"]["job0"].update({"data_transferred": (200, "kB", ("Vendor datasheet", "https://vendor-b.example.org"))})
    T["custom_sources"] = s
    return T


def Q(pair):
    v, unit = pair[0], pair[1]
    q = v * u(unit) if unit != "dimensionless" else v * u.dimensionless
    if len(pair) > 2 and pair[2] is None: return SourceValue(q, source=None)      # an input given without any source
    if len(pair) > 2:
        from efootprint.abstract_modeling_classes.explainable_object_base_class import Source
        return SourceValue(q, Source(pair[2][0], pair[2][1]))
    return SourceValue(q)


def _dt(s):
    return datetime.strptime(s, "%Y-%m-%dT%H") if "T" in s else datetime.strptime(s, "%Y-%m-%d")


HANDLES = {}


class Built:
    def __init__(self): self.obj = {}; self.system = None; self.spec = None

    def __getitem__(self, k): return self.obj[k]


def build(spec, compute=True):
    spec = _copy.deepcopy(spec)
    b = Built(); b.spec = spec
    o = b.obj
    dn = lambda n, d: d.get("display_name", n)
    for n, d in spec["storages"].items():
        kw = {k: Q(v) for k, v in d.items() if k != "display_name"}
        o[n] = Storage.ssd(dn(n, d), **kw)
    for n, d in spec["servers"].items():
        dv = Server.default_values()
        for k, v in d.items():
            if k in ("storage", "display_name"): continue
            elif k == "server_type": dv[k] = {"autoscaling": ServerTypes.autoscaling, "on-premise": ServerTypes.on_premise, "serverless": ServerTypes.serverless}[v]()
            else: dv[k] = Q(v)
        o[n] = Server(dn(n, d), storage=o[d["storage"]], **dv)
    for n, d in spec["jobs"].items():
        dv = Job.default_values()
        for k, v in d.items():
            if k not in ("server", "display_name"): dv[k] = Q(v)
        o[n] = Job(dn(n, d), server=o[d["server"]], **dv)
    for n, d in spec["steps"].items():
        o[n] = UsageJourneyStep(dn(n, d), user_time_spent=Q(d["user_time_spent"]), jobs=[o[j] for j in d["jobs"]])
    for n, d in spec["journeys"].items():
        o[n] = UsageJourney(dn(n, d), uj_steps=[o[s] for s in d["steps"]])
    for n, d in spec["devices"].items():
        kw = {}
        if "power" in d: kw["power"] = Q(d["power"])
        if "cff" in d: kw["carbon_footprint_fabrication"] = Q(d["cff"])
        if "lifespan" in d: kw["lifespan"] = Q(d["lifespan"])
        if "fraction" in d: kw["fraction_of_usage_time"] = Q(d["fraction"])
        o[n] = Device.laptop(dn(n, d), **kw)
    for n, d in spec["networks"].items():
        o[n] = Network(dn(n, d), bandwidth_energy_intensity=Q(d.get("bei", (0.05, "kWh/GB"))))
    for n, d in spec["countries"].items():
        o[n] = Country(dn(n, d), d.get("short", n[:3].upper()), Q(d["aci"]), SourceObject(pytz.timezone(TZ[d["tz"]])))
    for n, d in spec["ups"].items():
        hv = SourceHourlyValues(create_hourly_usage_df_from_list([float(x) for x in d["values"]], _dt(d["start"])))
        o[n] = UsagePattern(dn(n, d), o[d["journey"]], [o[x] for x in d["devices"]], o[d["network"]], o[d["country"]], hv)
    if compute:
        b.system = System("system", [o[x] for x in spec["system"]["ups"]])
        o["system"] = b.system
    b.system_handles = {id(getattr(v, "_value", v)): k for k, v in o.items()}
    if b.system is not None: HANDLES[id(b.system)] = b.system_handles
    HANDLE_OF.update(b.system_handles); KEEP_ALIVE.append(b)
    if len(KEEP_ALIVE) > 48:
        old = KEEP_ALIVE.pop(0)
        for k in old.system_handles:
            if HANDLE_OF.get(k) is not None and not any(k in x.system_handles for x in KEEP_ALIVE): HANDLE_OF.pop(k, None)
    return b


# ---------------------------------------------------------------------------------------------------- views
def phys_of_quantity(q):
    b = q.to_base_units()
    return float(b.magnitude), str(b.units)


HANDLE_OF = {}      # id(object) -> handle of the declarative specification (names are not identifiers: objects may share a display name)
KEEP_ALIVE = []     # the last built systems stay referenced so that id() keys are not reused while their handles are registered


def _key_name(k):
    k = getattr(k, "_value", k)
    return HANDLE_OF.get(id(k), getattr(k, "name", str(k)))


def view(v):
    """concrete twin of the abstract view of an explainable value"""
    if isinstance(v, dict):
        # an Empty entry carries no quantity: {up: Empty} and a missing key are the same physical content
        return {"dict": {_key_name(k): view(x) for k, x in v.items() if not isinstance(x, EmptyExplainableObject)}}
    if isinstance(v, EmptyExplainableObject): return {"empty": True}
    if isinstance(v, ExplainableHourlyQuantities):
        s = v.value["value"].pint.to_base_units()
        idx = v.value.index
        if idx.tz is not None: idx = idx.tz_convert("UTC").tz_localize(None)
        return {"hourly": {str(t): float(x) for t, x in zip(idx, s.values._data)}, "unit": str(s.pint.units)}
    if isinstance(v, ExplainableQuantity):
        m, un = phys_of_quantity(v.value)
        return {"q": m, "unit": un}
    if isinstance(v, ExplainableObject): return {"obj": str(v.value)}
    return {"other": str(v)}


def all_objects(system):
    return [system] + list(system.all_linked_objects)


def snapshot(system, inputs=False):
    out = {}
    handles = HANDLES.get(id(system), {})
    for obj in all_objects(system):
        obj = getattr(obj, "_value", obj)
        name = handles.get(id(obj), obj.name)
        for a in obj.calculated_attributes:
            out[(name, a)] = view(getattr(obj, a))
        if inputs:
            for k, val in obj.__dict__.items():
                if k in obj.calculated_attributes: continue
                if isinstance(val, ExplainableObject): out[(name, "input:" + k)] = view(val)
    return out


def close(a, b, rel=1e-9, abs_=1e-12):
    if a == b: return True
    if isinstance(a, float) and isinstance(b, float):
        if math.isnan(a) or math.isnan(b): return math.isnan(a) and math.isnan(b)
        return abs(a - b) <= abs_ + rel * max(abs(a), abs(b))
    return False


def view_equal(x, y, rel=1e-9):
    if set(x) != set(y): return False
    if "empty" in x: return True
    if "q" in x: return x["unit"] == y["unit"] and close(x["q"], y["q"], rel)
    if "hourly" in x:
        if x["unit"] != y["unit"] or set(x["hourly"]) != set(y["hourly"]): return False
        return all(close(v, y["hourly"][k], rel) for k, v in x["hourly"].items())
    if "dict" in x:
        if set(x["dict"]) != set(y["dict"]): return False
        return all(view_equal(v, y["dict"][k], rel) for k, v in x["dict"].items())
    return x == y


def diff(a, b, rel=1e-9):
    keys = sorted(set(a) | set(b))
    return [k for k in keys if k not in a or k not in b or not view_equal(a[k], b[k], rel)]


def total(view_):
    if "hourly" in view_: return sum(view_["hourly"].values())
    return 0.0


# ---------------------------------------------------------------------------------------------------- edits
class Edit:
    """an edit that can be applied to a live system and to its spec"""
    def __init__(self, name, live, spec, change=None):
        self.name, self.live, self.spec = name, live, spec
        self.change = change      # b -> [old value object, new value]: lets several edits be grouped in one ModelingUpdate

    def __repr__(self): return self.name


def _setq(objname, attr, pair, speckey=None, section=None):
    def live(b): setattr(b[objname], attr, Q(pair))
    def spec(s):
        for sec in (section,) if section else ("storages", "servers", "jobs", "steps", "devices", "networks", "countries"):
            if objname in s[sec]:
                s[sec][objname][speckey or attr] = pair; return
        raise KeyError(objname)
    return Edit(f"{objname}.{attr}={pair[0]} {pair[1]}", live, spec, change=lambda b: [getattr(b[objname], attr), Q(pair)])


def numeric_edits(spec):
    E = []
    for n in spec["jobs"]:
        E += [_setq(n, "data_transferred", (300, "kB")), _setq(n, "request_duration", (2, "hour")), _setq(n, "ram_needed", (100, "MB")),
              _setq(n, "compute_needed", (0.3, "cpu_core")), _setq(n, "data_stored", (250, "kB"))]
    for n in spec["servers"]:
        E += [_setq(n, "power", (400, "W")), _setq(n, "ram", (64, "GB")), _setq(n, "power_usage_effectiveness", (1.5, "dimensionless")),
              _setq(n, "average_carbon_intensity", (200, "g/kWh")), _setq(n, "base_ram_consumption", (10, "GB")), _setq(n, "lifespan", (4, "year")),
              _setq(n, "idle_power", (60, "W"))]
        if spec["servers"][n].get("server_type") == "on-premise":
            E += [_setq(n, "fixed_nb_of_instances", (6000, "dimensionless"))]     # pinning (or re-pinning) the count on the live model
    for n in spec["storages"]:
        E += [_setq(n, "data_replication_factor", (2, "dimensionless")), _setq(n, "storage_capacity", (2, "TB")),
              _setq(n, "data_storage_duration", (2, "hour")), _setq(n, "base_storage_need", (8, "TB")),
              _setq(n, "fixed_nb_of_instances", (7000, "dimensionless"))]
    for n in spec["steps"]:
        E += [_setq(n, "user_time_spent", (95, "min"))]
    for n in spec["networks"]:
        E += [_setq(n, "bandwidth_energy_intensity", (0.2, "kWh/GB"), speckey="bei")]
    for n in spec["countries"]:
        E += [_setq(n, "average_carbon_intensity", (400, "g/kWh"), speckey="aci")]
    for n in spec["devices"]:
        E += [_setq(n, "power", (70, "W")), _setq(n, "lifespan", (3, "year"))]
    for n, d in spec["ups"].items():
        newvals = [x + 1 for x in d["values"]]
        def live(b, n=n, newvals=newvals, d=d):
            b[n].hourly_usage_journey_starts = SourceHourlyValues(create_hourly_usage_df_from_list([float(x) for x in newvals], _dt(d["start"])))
        def sp(s, n=n, newvals=newvals): s["ups"][n]["values"] = newvals
        E.append(Edit(f"{n}.hourly_usage_journey_starts+=1", live, sp,
                      change=lambda b, n=n, newvals=newvals, d=d: [b[n].hourly_usage_journey_starts, SourceHourlyValues(
                          create_hourly_usage_df_from_list([float(x) for x in newvals], _dt(d["start"])))]))
    return E


def _server_type_obj(name):
    return {"autoscaling": ServerTypes.autoscaling, "on-premise": ServerTypes.on_premise, "serverless": ServerTypes.serverless}[name]()


def link_edits(spec):
    E = []
    # the server type is an object-valued input: switching it changes which sizing rule applies
    for sv, d in spec["servers"].items():
        for t in ("autoscaling", "serverless", "on-premise"):
            if t != d.get("server_type", "autoscaling") and not (t != "on-premise" and "fixed_nb_of_instances" in d):
                E.append(Edit(f"{sv}.server_type={t}", lambda b, sv=sv, t=t: setattr(b[sv], "server_type", _server_type_obj(t)),
                              lambda s, sv=sv, t=t: s["servers"][sv].__setitem__("server_type", t),
                              change=lambda b, sv=sv, t=t: [b[sv].server_type, _server_type_obj(t)]))
    # links re-pointed at BRAND-NEW objects (not yet part of any system)
    # (one new object PER edit, under a handle of its own, live and in the specification alike: two such edits in a history make two objects)
    for up in spec["ups"]:
        h = f"net_new_{up}"
        def live_n(b, up=up, h=h):
            b.obj[h] = Network(h, bandwidth_energy_intensity=Q((0.3, "kWh/GB"))); setattr(b[up], "network", b[h])
        def spec_n(s, up=up, h=h):
            s["networks"][h] = {"bei": (0.3, "kWh/GB")}; s["ups"][up]["network"] = h
        E.append(Edit(f"{up}.network->NEW", live_n, spec_n))
    for sv in spec["servers"]:
        h = f"st_new_{sv}"
        def live_s(b, sv=sv, h=h):
            b.obj[h] = Storage.ssd(h, base_storage_need=Q((4, "TB"))); setattr(b[sv], "storage", b[h])
        def spec_s(s, sv=sv, h=h):
            s["storages"][h] = {"base_storage_need": (4, "TB")}; s["servers"][sv]["storage"] = h
        E.append(Edit(f"{sv}.storage->NEW", live_s, spec_s))
    ups, journeys, networks, countries, steps, jobs, servers = (list(spec[k]) for k in ("ups", "journeys", "networks", "countries", "steps", "jobs", "servers"))
    for up in ups:
        for j in journeys:
            if j != spec["ups"][up]["journey"]:
                E.append(Edit(f"{up}.usage_journey->{j}", lambda b, up=up, j=j: setattr(b[up], "usage_journey", b[j]),
                              lambda s, up=up, j=j: s["ups"][up].__setitem__("journey", j),
                              change=lambda b, up=up, j=j: [b[up].usage_journey, b[j]]))
        for nname in networks:
            if nname != spec["ups"][up]["network"]:
                E.append(Edit(f"{up}.network->{nname}", lambda b, up=up, n=nname: setattr(b[up], "network", b[n]),
                              lambda s, up=up, n=nname: s["ups"][up].__setitem__("network", n),
                              change=lambda b, up=up, n=nname: [b[up].network, b[n]]))
        for c in countries:
            if c != spec["ups"][up]["country"]:
                E.append(Edit(f"{up}.country->{c}", lambda b, up=up, c=c: setattr(b[up], "country", b[c]),
                              lambda s, up=up, c=c: s["ups"][up].__setitem__("country", c)))
    for jn in jobs:
        for sv in servers:
            if sv != spec["jobs"][jn]["server"]:
                E.append(Edit(f"{jn}.server->{sv}", lambda b, jn=jn, sv=sv: setattr(b[jn], "server", b[sv]),
                              lambda s, jn=jn, sv=sv: s["jobs"][jn].__setitem__("server", sv),
                              change=lambda b, jn=jn, sv=sv: [b[jn].server, b[sv]]))
    for st in steps:
        for jn in jobs:
            E.append(Edit(f"{st}.jobs.append({jn})", lambda b, st=st, jn=jn: b[st].jobs.append(b[jn]),
                          lambda s, st=st, jn=jn: s["steps"][st]["jobs"].append(jn)))
            E.append(Edit(f"{st}.jobs=[{jn}]", lambda b, st=st, jn=jn: setattr(b[st], "jobs", [b[jn]]),
                          lambda s, st=st, jn=jn: s["steps"][st].__setitem__("jobs", [jn]),
                          change=lambda b, st=st, jn=jn: [b[st].jobs, [b[jn]]]))
        if spec["steps"][st]["jobs"]:
            E.append(Edit(f"{st}.jobs.pop()", lambda b, st=st: b[st].jobs.pop(), lambda s, st=st: s["steps"][st]["jobs"].pop()))
    for j in journeys:
        for st in steps:
            E.append(Edit(f"{j}.uj_steps.append({st})", lambda b, j=j, st=st: b[j].uj_steps.append(b[st]),
                          lambda s, j=j, st=st: s["journeys"][j]["steps"].append(st)))
        if len(spec["journeys"][j]["steps"]) > 1:
            E.append(Edit(f"{j}.uj_steps.pop(0)", lambda b, j=j: b[j].uj_steps.pop(0), lambda s, j=j: s["journeys"][j]["steps"].pop(0)))
    return E


def is_float_cancellation_rejection(ex):
    """known finding D3: a model is rejected with a 'negative cumulative storage need' of rounding-error size although no
    job deletes data"""
    import re
    m = re.search(r"negative cumulative storage need detected: (-?[0-9.e+-]+) terabyte.*delete data: \[\]", str(ex))
    return bool(m) and abs(float(m.group(1))) < 1e-12


def job_usage_patterns(spec):
    out = {}
    for up, d in spec["ups"].items():
        if up not in spec["system"]["ups"]: continue
        for st in spec["journeys"][d["journey"]]["steps"]:
            for j in spec["steps"][st]["jobs"]:
                out.setdefault(j, set()).add(up)
    return out


def has_shared_job(spec):
    """a job reachable from two usage patterns: the configuration of known finding D1"""
    return any(len(v) > 1 for v in job_usage_patterns(spec).values())


CASE_TIMEOUT_S = int(os.environ.get("VF_CASE_TIMEOUT", "300"))
TIMEOUTS = []       # cases of the last runs that did not finish within CASE_TIMEOUT_S (never a verdict: reported as undecided by vf.check)
_FN = [None]


class CaseTimeout(BaseException):
    """not an Exception: library code catching Exception must not swallow it"""


def _alarm(*_a): raise CaseTimeout()


def _guarded(x):
    import signal
    signal.signal(signal.SIGALRM, _alarm); signal.alarm(CASE_TIMEOUT_S)
    try:
        return ("ok", _FN[0](x))
    except CaseTimeout:
        return ("timeout", repr(x)[:300])
    finally:
        signal.alarm(0)


def run_parallel(fn, items, procs=16):
    """map fn over items in a fork pool; every case runs under a wall-clock limit (a case of a few seconds that does not come back
    within CASE_TIMEOUT_S is dropped from the results and listed in TIMEOUTS)"""
    import multiprocessing as mp
    _FN[0] = fn
    if procs <= 1 or len(items) <= 1:
        raw = [_guarded(x) for x in items]
    else:
        ctx = mp.get_context("fork")
        with ctx.Pool(min(procs, len(items))) as pool:
            raw = pool.map(_guarded, items, chunksize=max(1, len(items) // (procs * 4)))
    TIMEOUTS.extend(r[1] for r in raw if r[0] == "timeout")
    return [r[1] for r in raw if r[0] == "ok"]


def build_services_system(video_resolution="720p (1280 x 720)", technology="php-symfony", provider="openai", model_name="gpt-3.5-turbo-1106",
                          instance_type=None, cloud_provider=None, with_plain_job=True, gpu_count=64, values=(1000, 2000, 4000, 5000, 8000, 12000, 2000, 2000, 3000),
                          second_video=False, video_on_second=False, cloud_on_premise_fixed=None, video_base_ram=None,
                          second_gpu=False, genai_on_second=False, twin_video_job=False):
    """one system containing every builder class (cloud server, GPU server, three services with their jobs)"""
    from efootprint.builders.hardware.boavizta_cloud_server import BoaviztaCloudServer
    from efootprint.core.hardware.gpu_server import GPUServer
    from efootprint.builders.services.generative_ai_ecologits import GenAIModel, GenAIJob
    from efootprint.builders.services.video_streaming import VideoStreaming, VideoStreamingJob
    from efootprint.builders.services.web_application import WebApplication, WebApplicationJob
    from efootprint.constants.countries import Countries
    b = Built(); o = b.obj
    o["cloud_st"] = Storage.ssd("cloud storage")
    kw = {}
    if instance_type: kw["instance_type"] = SourceObject(instance_type)
    if cloud_provider: kw["provider"] = SourceObject(cloud_provider)
    b.given = {}
    if cloud_on_premise_fixed is not None:
        kw["server_type"] = ServerTypes.on_premise(); kw["fixed_nb_of_instances"] = SourceValue(cloud_on_premise_fixed * u.dimensionless)
        b.given["cloud.fixed_nb_of_instances"] = cloud_on_premise_fixed
    o["cloud"] = BoaviztaCloudServer.from_defaults("cloud server", storage=o["cloud_st"], base_ram_consumption=SourceValue(1 * u.GB), **kw)
    o["gpu_st"] = Storage.ssd("gpu storage")
    o["gpu"] = GPUServer.from_defaults("gpu server", storage=o["gpu_st"], compute=SourceValue(gpu_count * u.gpu))
    o["video"] = VideoStreaming.from_defaults("video service", server=o["cloud"], **({"base_ram_consumption": SourceValue(video_base_ram * u.GB)} if video_base_ram is not None else {}))
    o["webapp"] = WebApplication("webapp service", o["cloud"], technology=SourceObject(technology))
    if second_gpu or genai_on_second:
        o["gpu2_st"] = Storage.ssd("second gpu storage")
        o["gpu2"] = GPUServer.from_defaults("second gpu server", storage=o["gpu2_st"], compute=SourceValue(gpu_count * u.gpu), ram_per_gpu=SourceValue(40 * u.GB / u.gpu))
    o["genai"] = GenAIModel.from_defaults("genai service", provider=SourceObject(provider), model_name=SourceObject(model_name), server=o["gpu2"] if genai_on_second else o["gpu"])
    if second_video or video_on_second:
        # a second video service on a second (plain) server, without any job of its own
        o["cloud2_st"] = Storage.ssd("second storage")
        o["cloud2"] = Server.from_defaults("second server", storage=o["cloud2_st"])
        o["video2"] = VideoStreaming.from_defaults("second video service", server=o["cloud2"], bits_per_pixel=SourceValue(0.25 * u.dimensionless))
    o["video_job"] = VideoStreamingJob.from_defaults("video job", service=o["video2"] if video_on_second else o["video"], resolution=SourceObject(video_resolution), video_duration=SourceValue(20 * u.min))
    o["webapp_job"] = WebApplicationJob.from_defaults("webapp job", service=o["webapp"])
    o["genai_job"] = GenAIJob("genai job", o["genai"], output_token_count=SourceValue(1000 * u.dimensionless))
    jobs = [o["video_job"], o["webapp_job"], o["genai_job"]]
    if twin_video_job:
        # a second streaming job that carries the SAME name (what the builder's default naming gives to two jobs of one resolution): names are labels
        o["video_job_b"] = VideoStreamingJob.from_defaults("video job", service=o["video"], resolution=SourceObject(video_resolution), video_duration=SourceValue(50 * u.min))
        jobs.append(o["video_job_b"])
    if with_plain_job:
        o["plain_job"] = Job.from_defaults("plain job", server=o["cloud"]); jobs.append(o["plain_job"])
    o["step"] = UsageJourneyStep("step", user_time_spent=SourceValue(20 * u.min), jobs=jobs)
    o["uj"] = UsageJourney("journey", uj_steps=[o["step"]])
    o["net"] = Network("network", SourceValue(0.05 * u("kWh/GB")))
    o["dev"] = Device.laptop("laptop")
    o["country"] = Countries.FRANCE()
    o["up"] = UsagePattern("usage pattern", o["uj"], [o["dev"]], o["net"], o["country"],
                           SourceHourlyValues(create_hourly_usage_df_from_list([float(x) for x in values], datetime(2025, 1, 1))))
    b.system = System("services system", [o["up"]]); o["system"] = b.system
    b.system_handles = {id(getattr(v, "_value", v)): k for k, v in o.items()}
    HANDLES[id(b.system)] = b.system_handles
    return b


def identity_snapshot(system):
    """identity (python id) and physical view of every ExplainableObject attribute and of every link of every object"""
    out = {}
    handles = HANDLES.get(id(system), {})
    for obj in all_objects(system):
        obj = getattr(obj, "_value", obj)
        name = handles.get(id(obj), obj.name)
        for k, val in obj.__dict__.items():
            if k in ("contextual_modeling_obj_containers",): continue
            if k.startswith("previous_") or k.startswith("initial_") or k in ("all_changes", "previous_change", "simulation"): continue
            if isinstance(val, dict) and not isinstance(val, ExplainableObject):
                out[(name, k)] = ("dict", tuple((getattr(kk, "name", str(kk)), id(vv)) for kk, vv in val.items()), view(val))
            elif isinstance(val, ExplainableObject):
                out[(name, k)] = ("value", id(val), view(val))
            elif isinstance(val, list):
                out[(name, k)] = ("list", tuple(getattr(x, "_value", x).name for x in val), None)
            elif hasattr(val, "_value"):
                out[(name, k)] = ("link", val._value.name, None)
        try:
            out[(name, "<reverse links>")] = ("list", tuple(sorted(getattr(c, "_value", c).name for c in obj.modeling_obj_containers)), None)
        except Exception as ex:
            out[(name, "<reverse links>")] = ("list", ("raises " + type(ex).__name__,), None)
    return out


def identity_diff(a, b, identities=True):
    d = []
    for k in sorted(set(a) | set(b), key=str):
        if k not in a or k not in b: d.append(f"{k[0]}.{k[1]}:presence"); continue
        x, y = a[k], b[k]
        if x[0] != y[0]: d.append(f"{k[0]}.{k[1]}:kind"); continue
        if x[0] in ("list", "link"):
            if x[1] != y[1]: d.append(f"{k[0]}.{k[1]}:link")
            continue
        if not view_equal(x[2], y[2]): d.append(f"{k[0]}.{k[1]}:value")
        elif identities and x[1] != y[1]: d.append(f"{k[0]}.{k[1]}:identity")
    return d
