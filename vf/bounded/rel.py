"""Relational run-time twins: C10 (unit independence), C12 (proportionality), C18 (fixed point / inputs untouched),
C19 (order, identifiers, hash seed)."""
from __future__ import annotations
import copy, itertools, json, math, os, random, subprocess, sys, traceback
from . import harness as H
from .harness import u

ALT_UNITS = {"kB": "MB", "MB": "GB", "GB": "MB", "TB": "GB", "min": "s", "hour": "min", "year": "day", "W": "kW", "kg": "g",
             "g/kWh": "kg/MWh", "kWh/GB": "Wh/MB", "dimensionless": "percent", "cpu_core": None}


def reexpress(pair):
    v, unit = pair[0], pair[1]
    alt = ALT_UNITS.get(unit)
    if alt is None: return None
    q = (v * u(unit)).to(u(alt))
    return (float(q.magnitude), alt)


def numeric_slots(spec):
    """(section, object, key) of every quantity-valued input present in the spec + defaults worth re-expressing"""
    out = []
    for sec in ("storages", "servers", "jobs", "steps", "devices", "networks", "countries"):
        for n, d in spec[sec].items():
            for k, v in d.items():
                if isinstance(v, tuple) and len(v) >= 2 and isinstance(v[1], str): out.append((sec, n, k))
    return out


DEFAULT_SLOTS = {"storages": {"storage_capacity": (1, "TB"), "base_storage_need": (3, "TB"), "data_storage_duration": (4, "hour"), "data_replication_factor": (3, "dimensionless"),
                              "idle_power": (2, "W"), "lifespan": (6, "year")},
                 "servers": {"ram": (128, "GB"), "power": (300, "W"), "idle_power": (50, "W"), "lifespan": (6, "year"), "base_ram_consumption": (5, "GB"),
                             "average_carbon_intensity": (100, "g/kWh"), "server_utilization_rate": (0.9, "dimensionless"), "power_usage_effectiveness": (1.2, "dimensionless"),
                             "carbon_footprint_fabrication": (600, "kg")},
                 "jobs": {"data_transferred": (150, "kB"), "data_stored": (100, "kB"), "request_duration": (1, "min"), "ram_needed": (50, "MB")},
                 "devices": {"power": (50, "W"), "lifespan": (6, "year"), "cff": (156, "kg")},
                 "networks": {"bei": (0.05, "kWh/GB")}}


def _c10_case(args):
    tname, spec, slot = args[:3]
    given = args[3] if len(args) > 3 else None     # (value in one unit, the same duration in another unit), both written out
    H.deterministic_ids(3)
    sec, n, k = slot
    out = {"topology": tname, "slot": f"{n}.{k}", "status": "ok", "diff": []}
    try:
        s1 = copy.deepcopy(spec)
        if k not in s1[sec][n]: s1[sec][n][k] = DEFAULT_SLOTS[sec][k]
        if given: s1[sec][n][k] = given[0]
        s2 = copy.deepcopy(s1)
        alt = given[1] if given else reexpress(s1[sec][n][k])
        if given:
            # D21: a whole number of hours written in milliseconds converts to hours with a floating-point residue (7200000 ms -> 2.0000000000000004 h)
            out["residue"] = bool(given[0][1] == "hour" and given[1][1] == "ms" and float(given[0][0]).is_integer()
                                  and (given[1][0] * u(given[1][1])).to(u.hour).magnitude != given[0][0])
            out["slot"] = f"{n}.{k}={given[0][0]} {given[0][1]} as {given[1][0]} {given[1][1]}"
        if alt is None: out["status"] = "skip"; return out
        s2[sec][n][k] = alt
        out["units"] = [s1[sec][n][k][1], alt[1]]
        try:
            a = H.build(s1)
        except Exception as ex:
            out["status"] = "D3" if H.is_float_cancellation_rejection(ex) else "raises"; return out
        try:
            b = H.build(s2)
        except Exception as ex:
            out["status"] = "D3" if H.is_float_cancellation_rejection(ex) else "raises-only-in-other-unit"; out["error"] = str(ex)[:150]; return out
        d = H.diff(H.snapshot(a.system), H.snapshot(b.system), rel=1e-9)
        if d: out["status"] = "differs"; out["diff"] = [f"{o}.{x}" for o, x in d]
    except Exception:
        out["status"] = "harness-error"; out["error"] = traceback.format_exc()[-600:]
    return out


def run_c10(tier, seed, procs=16):
    T = H.topologies()
    items = []
    for tname, spec in T.items():
        slots = set(numeric_slots(spec))
        for sec, dd in DEFAULT_SLOTS.items():
            for n in spec[sec]:
                for k in dd: slots.add((sec, n, k))
        slots = sorted(slots)
        if tier == "quick": slots = [s for i, s in enumerate(slots) if (i + seed) % 2 == 0 or tname in ("single", "two_servers_repeated_job")]
        items += [(tname, spec, s) for s in slots]
    # fixed instance counts expressed in percent
    s = copy.deepcopy(T["two_servers_repeated_job"]); s["servers"]["srv0"]["fixed_nb_of_instances"] = (4, "dimensionless")
    items.append(("fixed_on_premise", s, ("servers", "srv0", "fixed_nb_of_instances")))
    s = copy.deepcopy(T["single"]); s["storages"]["st0"]["fixed_nb_of_instances"] = (40, "dimensionless")
    items.append(("fixed_storage", s, ("storages", "st0", "fixed_nb_of_instances")))
    # durations of a whole number of hours written in milliseconds (the conversion to hours is where ceil / floor are taken)
    for tname in (("single", "two_servers_repeated_job") if tier == "quick" else tuple(T)):
        spec = T[tname]
        for sec, k in (("jobs", "request_duration"), ("steps", "user_time_spent"), ("storages", "data_storage_duration")):
            for n in list(spec[sec])[:1 if tier == "quick" else 2]:
                for hrs in (1, 2, 3, 4):
                    items.append((tname, spec, (sec, n, k), ((hrs, "hour"), (hrs * 3600000, "ms"))))
                    items.append((tname, spec, (sec, n, k), ((hrs, "hour"), (hrs * 3600, "s"))))      # converts exactly: must agree
    # small amounts written in a large unit (a bare magnitude compared with a threshold would see "almost nothing")
    for tname in (("single", "two_servers_repeated_job") if tier == "quick" else tuple(T)):
        spec = T[tname]
        for sec, k, big in (("jobs", "request_duration", (5e-7, "ks")), ("steps", "user_time_spent", (3e-7, "year")), ("jobs", "data_transferred", (2e-7, "TB")),
                            ("jobs", "ram_needed", (4e-7, "TB")), ("storages", "data_storage_duration", (8e-4, "year"))):
            for n in list(spec[sec])[:1 if tier == "quick" else 2]:
                small_unit = {"ks": "ms", "year": "s", "TB": "kB"}[big[1]]
                items.append((tname, spec, (sec, n, k), (big, (float((big[0] * u(big[1])).to(u(small_unit)).magnitude), small_unit))))
    res = H.run_parallel(_c10_case, items, procs)
    for r in res:
        if r.get("residue") and r["status"] in ("differs", "raises-only-in-other-unit"): r["status"] = "D21"
    return _report("C10", res, lambda r: f"{r['topology']}|{r['slot']}", "one case = (topology, one quantity input re-expressed in another unit of the same dimension); "
                   "both systems built from scratch, every calculated attribute compared on physical values (rel 1e-9)",
                   f"{len(T)} topologies x every quantity input (quick: half of them), one alternative unit each")


DRIVERS = [  # (section, key, default, affected attribute suffixes (scaled by k or 1/k), expo)
    ("servers", "power_usage_effectiveness", (1.2, "dimensionless"), 1),
    ("servers", "average_carbon_intensity", (100, "g/kWh"), 1),
    ("networks", "bei", (0.05, "kWh/GB"), 1),
    ("countries", "aci", None, 1),
    ("devices", "power", (50, "W"), 1),
    ("devices", "cff", (156, "kg"), 1),
    ("devices", "lifespan", (6, "year"), -1),
    ("servers", "carbon_footprint_fabrication", (600, "kg"), 1),
    ("servers", "lifespan", (6, "year"), -1),
    ("storages", "lifespan", (6, "year"), -1),
    ("jobs", "data_transferred", (150, "kB"), 1),
]


def expected_scaling(b, sec, n, key):
    """{(object key, attribute): exponent} of the footprints driven by the driver; every other footprint must not move"""
    o = b[n]
    hk = lambda obj: b.system_handles[id(getattr(obj, "_value", obj))]
    out = {}
    if sec == "servers" and key == "power_usage_effectiveness":
        out[(n, "energy_footprint")] = 1; out[(n, "instances_energy")] = 1
        st = hk(o.storage); out[(st, "energy_footprint")] = 1; out[(st, "instances_energy")] = 1
    elif sec == "servers" and key == "average_carbon_intensity":
        out[(n, "energy_footprint")] = 1; out[(hk(o.storage), "energy_footprint")] = 1
    elif sec == "networks": out[(n, "energy_footprint")] = 1
    elif sec == "countries":
        for up in o.usage_patterns:
            out[(hk(up), "energy_footprint")] = 1; out[(hk(up), "devices_energy_footprint")] = 1
        # networks: only partly (per usage pattern) -> checked by C02; exclude them from the 'unchanged' set
        for up in o.usage_patterns: out[(hk(up.network), "energy_footprint")] = None
    elif sec == "devices":
        for up in o.modeling_obj_containers:
            many = len(up.devices) > 1
            if key == "power":
                for a in ("devices_energy", "devices_energy_footprint", "energy_footprint"): out[(hk(up), a)] = None if many else 1
            else:
                e = -1 if key == "lifespan" else 1
                for a in ("devices_fabrication_footprint", "instances_fabrication_footprint"): out[(hk(up), a)] = None if many else e
    elif key in ("carbon_footprint_fabrication", "lifespan"):
        out[(n, "instances_fabrication_footprint")] = -1 if key == "lifespan" else 1
    elif sec == "jobs" and key == "data_transferred":
        for a in ("hourly_data_transferred_per_usage_pattern", "hourly_data_transferred_across_usage_patterns"): out[(n, a)] = 1
        for net in o.networks: out[(hk(net), "energy_footprint")] = None
    return out


def scale_view(v, c):
    if "hourly" in v: return {"hourly": {k: x * c for k, x in v["hourly"].items()}, "unit": v["unit"]}
    if "q" in v: return {"q": v["q"] * c, "unit": v["unit"]}
    if "dict" in v: return {"dict": {k: scale_view(x, c) for k, x in v["dict"].items()}}
    return v


def _c12_case(args):
    tname, spec, sec, n, key, default, expo, kf = args
    H.deterministic_ids(4)
    out = {"topology": tname, "slot": f"{n}.{key}x{kf}", "status": "ok", "diff": []}
    try:
        s1 = copy.deepcopy(spec)
        if key not in s1[sec][n]: s1[sec][n][key] = default
        s2 = copy.deepcopy(s1); v, un = s1[sec][n][key][:2]; s2[sec][n][key] = (v * kf, un)
        try:
            a = H.build(s1); b = H.build(s2)
        except Exception as ex:
            out["status"] = "D3" if H.is_float_cancellation_rejection(ex) else "raises"; return out
        exp = expected_scaling(a, sec, n, key)
        sa, sb = H.snapshot(a.system), H.snapshot(b.system)
        # the same scaling applied to a live, already computed system (the driver is edited, not rebuilt)
        attr = {"aci": "average_carbon_intensity", "bei": "bandwidth_energy_intensity", "cff": "carbon_footprint_fabrication", "fraction": "fraction_of_usage_time"}.get(key, key)
        live_snap = None
        if not H.has_shared_job(s1):          # live edits of shared-job systems are known finding D1 territory
            c = H.build(s1)
            try:
                if kf == 3 and sec in ("servers", "networks", "countries", "devices"):
                    # a what-if simulation has been created and switched off before the driver is edited (values were swapped out and back)
                    from . import sim as SIM
                    mk_, _ = SIM.change_lists(c, s1)["job.data_transferred"]
                    simu = H.ModelingUpdate(mk_(c), SIM.dates_for(c)["first"]); simu.set_updated_values(); simu.reset_values()
                setattr(c[n], attr, H.Q(s2[sec][n][key]))
                live_snap = H.snapshot(c.system)
            except Exception as ex:
                if not H.is_float_cancellation_rejection(ex): out["diff"].append(f"live-edit-raises:{type(ex).__name__}")
        for k_, va in sa.items():
            if not any(x in k_[1] for x in ("footprint", "energy", "hourly_data_transferred")): continue
            if k_ == ("system", "total_footprint"): continue
            e = exp.get(k_, 0)
            if e is None: continue
            want = scale_view(va, kf ** e)
            if not H.view_equal(want, sb[k_], rel=1e-9): out["diff"].append(f"{k_[0]}.{k_[1]}(expected x{kf}^{e})")
            if live_snap is not None and not H.view_equal(want, live_snap[k_], rel=1e-9): out["diff"].append(f"{k_[0]}.{k_[1]}(after a live edit: expected x{kf}^{e})")
        if sec == "countries":
            # networks carry one term per usage pattern, each with the intensity of ITS OWN country object: scaling one country's intensity by k
            # adds (k - 1) x the terms of the usage patterns of that country, and nothing else (names and short names are labels)
            from . import inv as INV
            raw_ = lambda x: getattr(x, "_value", x)
            cobj = raw_(a[n]); add_ = {}
            for up in a.system.usage_patterns:
                if raw_(up.country) is not cobj: continue
                tr = {}
                for job in INV.jobs_of_up(up):
                    ent = [v for k2, v in job.hourly_data_transferred_per_usage_pattern.items() if raw_(k2) is raw_(up)]
                    if ent: tr = INV.add(tr, INV.series(ent[0]))
                net = raw_(up.network); hk_ = a.system_handles[id(net)]
                add_[hk_] = INV.add(add_.get(hk_, {}), INV.scale(tr, INV.phys(net.bandwidth_energy_intensity) * INV.phys(cobj.average_carbon_intensity) * (kf - 1)))
            for hk_, inc in add_.items():
                want_ = INV.add(INV.series(raw_(a[hk_]).energy_footprint), inc)
                if not INV.series_equal(INV.series(raw_(b[hk_]).energy_footprint), want_): out["diff"].append(f"{hk_}.energy_footprint(expected + (k-1) x the share of the usage patterns of {n})")
                if live_snap is not None and not INV.series_equal(INV.series(raw_(c[hk_]).energy_footprint), want_):
                    out["diff"].append(f"{hk_}.energy_footprint(after a live edit: expected + (k-1) x the share of the usage patterns of {n})")
        if out["diff"]: out["status"] = "differs"
    except Exception:
        out["status"] = "harness-error"; out["error"] = traceback.format_exc()[-600:]
    return out


def _traffic_case(args):
    tname, spec, kf = args
    H.deterministic_ids(4)
    out = {"topology": tname, "slot": f"all-traffic x{kf}", "status": "ok", "diff": []}
    try:
        s1 = copy.deepcopy(spec)
        for sv in s1["servers"].values(): sv["server_type"] = "serverless"; sv.pop("fixed_nb_of_instances", None)
        s2 = copy.deepcopy(s1)
        for up in s2["ups"].values(): up["values"] = [x * kf for x in up["values"]]
        try:
            a = H.build(s1); b = H.build(s2)
        except Exception as ex:
            out["status"] = "D3" if H.is_float_cancellation_rejection(ex) else "raises"; return out
        sa, sb = H.snapshot(a.system), H.snapshot(b.system)
        for k_, va in sa.items():
            cls = type(a[k_[0]]).__name__ if k_[0] in a.obj else ""
            prop = (k_[0] != "system" and cls in ("Job", "Network", "UsagePattern")) or (cls == "Server" and k_[1] in ("hour_by_hour_ram_need", "hour_by_hour_compute_need", "raw_nb_of_instances", "nb_of_instances", "instances_energy", "energy_footprint", "instances_fabrication_footprint"))
            if not prop or k_[1] == "utc_hourly_usage_journey_starts": continue
            if "q" in va: continue
            if not H.view_equal(scale_view(va, kf), sb[k_], rel=1e-9): out["diff"].append(f"{k_[0]}.{k_[1]}")
        if out["diff"]: out["status"] = "differs"
    except Exception:
        out["status"] = "harness-error"; out["error"] = traceback.format_exc()[-600:]
    return out


def run_c12(tier, seed, procs=16):
    T = H.topologies()
    items = []
    for tname, spec in T.items():
        for sec, key, default, expo in DRIVERS:
            for n in spec[sec]:
                if default is None and key not in spec[sec][n]: continue
                for kf in ((3,) if tier == "quick" else (3, 0.5)):
                    items.append((tname, spec, sec, n, key, default, expo, kf))
    res = H.run_parallel(_c12_case, items, procs)
    res += H.run_parallel(_traffic_case, [(t, s, 3) for t, s in T.items()], procs)
    return _report("C12", res, lambda r: f"{r['topology']}|{r['slot']}", "one case = (topology, one cost driver multiplied by k); both systems built from scratch, and the driver also edited on a live computed system; the footprints the driver drives must scale by k (or 1/k), every other footprint must be unchanged; plus all traffic x k on serverless servers",
                   f"{len(T)} topologies x 11 drivers x every object of the class, k in {{3}} (thorough: also 0.5)")


def _c18_case(args):
    tname, spec, idx, mode = args
    H.deterministic_ids(5)
    out = {"topology": tname, "slot": f"{mode}", "status": "ok", "diff": []}
    try:
        try:
            b = H.build(spec)
            if isinstance(idx, tuple) and idx and idx[0] == "sim":
                # a what-if simulation is created (and switched off again, as its constructor does), then one ordinary edit
                from . import sim as SIM
                _, cname, k_edit = idx
                mk, _sedit = SIM.change_lists(b, spec)[cname]
                date = SIM.dates_for(b).get("first")
                simu = H.ModelingUpdate(mk(b), date)
                simu.set_updated_values(); simu.reset_values()
                eds = H.numeric_edits(spec)
                eds[k_edit].live(b); out["slot"] += f"|after simulation[{cname}] then {eds[k_edit].name}"
                idx = None
            if isinstance(idx, tuple) and idx and idx[0] == "grouped":
                # ONE ModelingUpdate carrying an object-link change and a list change (either order), then the second pass
                eds = H.numeric_edits(spec) + H.link_edits(spec)
                chosen = [eds[k_] for k_ in idx[1:]]
                s2 = copy.deepcopy(spec)
                for e in chosen: e.spec(s2)
                if H.has_shared_job(s2) and not H.has_shared_job(spec): out["status"] = "skip"; return out     # the update itself creates the D1 configuration
                H.ModelingUpdate([e.change(b) for e in chosen]); out["slot"] += "|after ONE update [" + " ; ".join(e.name for e in chosen) + "]"
                idx = None
            if idx is not None:
                eds = H.numeric_edits(spec) + H.link_edits(spec)
                for k_ in (idx if isinstance(idx, tuple) else (idx,)):
                    eds[k_].live(b); out["slot"] += "|after " + eds[k_].name
        except Exception as ex:
            out["status"] = "D3" if H.is_float_cancellation_rejection(ex) else "raises"; return out
        before = H.snapshot(b.system, inputs=True)
        objs = [getattr(o, "_value", o) for o in H.all_objects(b.system)]
        rnd = random.Random(f"{tname}|{idx}")
        if mode == "full-pass":
            for o in b.system.mod_objs_computation_chain[1:]: o.compute_calculated_attributes()
            b.system.compute_calculated_attributes()
        elif mode == "each-object-alone":
            for o in objs:
                if not o.calculated_attributes: continue
                o.compute_calculated_attributes()
                d = H.diff(before, H.snapshot(b.system, inputs=True))
                if d: out["diff"] += [f"recompute {o.name}: {x}.{y}" for x, y in d][:5]; break
        elif mode == "random-subset":
            for o in rnd.sample(objs, max(1, len(objs) // 2)): o.compute_calculated_attributes()
        elif mode == "read-explain-export":
            from efootprint.api_utils.system_to_json import system_to_json
            for o in objs:
                for a in o.calculated_attributes:
                    v = getattr(o, a)
                    if isinstance(v, dict):
                        for x in v.values(): x.explain(); str(x)
                    else:
                        v.explain(); str(v)
                str(o)
            system_to_json(b.system, save_calculated_attributes=True); system_to_json(b.system, save_calculated_attributes=False)
            b.system.total_energy_footprint_sum_over_period; b.system.fabrication_footprint_sum_over_period
        d = H.diff(before, H.snapshot(b.system, inputs=True))
        if d and not out["diff"]: out["diff"] = [f"{x}.{y}" for x, y in d]
        if out["diff"]: out["status"] = "differs"
        out["shared"] = H.has_shared_job(b.spec)
    except Exception:
        out["status"] = "harness-error"; out["error"] = traceback.format_exc()[-600:]
    return out


def run_c18(tier, seed, procs=16):
    T = H.topologies()
    items = []
    for tname, spec in T.items():
        n = len(H.numeric_edits(spec) + H.link_edits(spec))
        for mode in ("full-pass", "each-object-alone", "random-subset", "read-explain-export"):
            items.append((tname, spec, None, mode))
            idxs = range(n) if tier == "thorough" else [i for i in range(n) if (i + seed) % 6 == 0]
            if mode == "full-pass":
                for i in range(n): items.append((tname, spec, i, mode))       # every single edit, then a second pass
            elif mode == "each-object-alone":
                for i in idxs: items.append((tname, spec, i, mode))
        # histories of two edits (e.g. two different inputs of one attribute edited in turn), then a full second pass
        nn = len(H.numeric_edits(spec))
        rnd = random.Random(f"{seed}|{tname}|pairs")
        allp = [(i, j) for i in range(nn) for j in range(nn) if i != j]
        for p_ in (allp if tier == "thorough" and tname in ("single", "two_independent_chains") else rnd.sample(allp, min(len(allp), 40 if tier == "quick" else 150))):
            items.append((tname, spec, p_, "full-pass"))
        eds_ = H.numeric_edits(spec) + H.link_edits(spec)
        objl = [i for i, e in enumerate(eds_) if e.change and "->" in e.name]
        lstl = [i for i, e in enumerate(eds_) if e.change and ".jobs=[" in e.name]
        gp = [(a, b_) for a in objl for b_ in lstl] + [(b_, a) for a in objl for b_ in lstl]
        for a, b_ in (gp if tier == "thorough" else rnd.sample(gp, min(len(gp), 12))):
            items.append((tname, spec, ("grouped", a, b_), "full-pass"))
        if tname in ("single", "two_independent_chains", "server_shared_by_two_journeys"):
            from . import sim as SIM
            for cname in list(SIM.change_lists(None, spec))[:3]:
                for k_edit in (range(nn) if tier == "thorough" else rnd.sample(range(nn), min(nn, 8))):
                    items.append((tname, spec, ("sim", cname, k_edit), "full-pass"))
    res = H.run_parallel(_c18_case, items, procs)
    return _report("C18", res, lambda r: f"{r['topology']}|{r['slot']}", "one case = (topology, optionally after one edit, a history of two numeric edits, or a what-if simulation followed by one edit, a recomputation request: full second pass / each object alone / random subset of objects / read-explain-export); every calculated attribute AND every input compared before/after on physical values",
                   f"{len(T)} topologies x 4 request kinds (+ after {'every' if tier == 'thorough' else 'a sixth of the'} single edits)")


def permuted(spec, rnd):
    """same model, different creation order and different order of the order-irrelevant lists"""
    s = copy.deepcopy(spec)
    for sec in ("storages", "servers", "jobs", "steps", "journeys", "devices", "networks", "countries", "ups"):
        keys = list(s[sec]); rnd.shuffle(keys); s[sec] = {k: s[sec][k] for k in keys}
    for up in s["ups"].values(): rnd.shuffle(up["devices"])
    for st in s["steps"].values(): rnd.shuffle(st["jobs"])
    rnd.shuffle(s["system"]["ups"])
    return s


def _c19_case(args):
    tname, spec, k, idseed = args
    out = {"topology": tname, "slot": f"perm{k}/ids{idseed}", "status": "ok", "diff": []}
    try:
        H.deterministic_ids(100)
        try:
            a = H.build(spec)
        except Exception as ex:
            out["status"] = "D3" if H.is_float_cancellation_rejection(ex) else "raises"; return out
        H.deterministic_ids(idseed)
        s2 = permuted(spec, random.Random(k)) if k else spec
        try:
            b = H.build(s2)
        except Exception as ex:
            out["status"] = "D3" if H.is_float_cancellation_rejection(ex) else "raises-only-in-other-order"; out["error"] = str(ex)[:150]; return out
        d = H.diff(H.snapshot(a.system), H.snapshot(b.system), rel=1e-9)
        if d: out["status"] = "differs"; out["diff"] = [f"{o}.{x}" for o, x in d]
    except Exception:
        out["status"] = "harness-error"; out["error"] = traceback.format_exc()[-600:]
    return out


def _hashseed_run(tname, seed_):
    code = ("import sys, json; sys.path.insert(0,'/verif'); from vf.bounded import harness as H; H.deterministic_ids(100);"
            f"b=H.build(H.topologies()[{tname!r}]); s=H.snapshot(b.system);"
            "print(json.dumps({k[0]+'.'+k[1]: v for k, v in s.items()}))")
    env = dict(os.environ); env["PYTHONHASHSEED"] = str(seed_)
    r = subprocess.run([sys.executable, "-c", code], capture_output=True, text=True, env=env, timeout=300)
    if r.returncode != 0: return None, r.stderr[-300:]
    return json.loads(r.stdout.strip().splitlines()[-1]), None


def _c19_hash_case(args):
    tname, seed_ = args
    out = {"topology": tname, "slot": f"PYTHONHASHSEED={seed_}", "status": "ok", "diff": []}
    ref, e1 = _hashseed_run(tname, 0); other, e2 = _hashseed_run(tname, seed_)
    if ref is None or other is None:
        err = (e1 or "") + (e2 or "")
        out["status"] = "D3" if "negative cumulative storage need" in err and "e-2" in err else "raises"; return out
    d = [k for k in ref if k not in other or not H.view_equal(ref[k], other[k], rel=1e-9)]
    if d: out["status"] = "differs"; out["diff"] = d
    return out


def run_c19(tier, seed, procs=16):
    T = H.topologies()
    items = []
    for tname, spec in T.items():
        for k in range(0, 4 if tier == "quick" else 12):
            items.append((tname, spec, k, 7 + k + seed))
    res = H.run_parallel(_c19_case, items, procs)
    hs = [(t, s) for t in T for s in ((1, 2) if tier == "quick" else (1, 2, 3, 4, 5, 6, 7))]
    res += H.run_parallel(_c19_hash_case, hs, procs)
    return _report("C19", res, lambda r: f"{r['topology']}|{r['slot']}", "one case = the same model built twice: reference order / ids / hash seed vs permuted creation order and order-irrelevant lists, fresh identifiers, or another PYTHONHASHSEED (subprocess); all calculated attributes compared on physical values (rel 1e-9: float re-association is tolerated and reported)",
                   f"{len(T)} topologies x {4 if tier == 'quick' else 12} permutations/id seeds + {2 if tier == 'quick' else 7} hash seeds")


def _report(prop, res, key, rule, bound):
    viol, samples, nontrivial = [], [], set()
    for r in res:
        if r["status"] == "harness-error": raise RuntimeError("bounded harness error: " + r.get("error", ""))
        if r["status"] in ("skip", "raises"): continue
        if r["status"] == "D3":
            viol.append({"signature": "D3", "what": "deletion-free model rejected (float cancellation)", "input": {"case": key(r)}}); continue
        if r["status"] == "D21":
            viol.append({"signature": "D21", "what": f"whole hours written in milliseconds are read as one hour more: {key(r)}: {r['diff'][:4]} {r.get('error', '')}", "input": {"case": key(r)}}); continue
        nontrivial.add(key(r))
        if len(samples) < 3: samples.append({"case": key(r), "result": r["status"], "units": r.get("units")})
        if r["status"] != "ok":
            sig = f"{prop}|{key(r)}|{r['status']}|{','.join(sorted(r['diff']))[:300]}"
            if r.get("shared") and "after" in r.get("slot", ""): sig = "D1"
            viol.append({"signature": sig, "what": f"{prop}: {key(r)}: {r['status']} {r['diff'][:8]} {r.get('error', '')}", "input": {"case": key(r)}})
    return {"evaluations": len(res), "distinct_nontrivial": len(nontrivial), "rule": rule, "samples": samples, "violations": viol,
            "exhaustive": False, "bound": bound}
