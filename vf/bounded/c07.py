"""C07 bounded stand-in: every node of every explanation tree re-evaluates to its displayed value (pint / pandas), every
calculated attribute explains without error and carries a label, every leaf is labelled and, when it is an input of
the model, has a source."""
from __future__ import annotations
import math, traceback
from . import harness as H
from .harness import ExplainableQuantity, ExplainableHourlyQuantities, EmptyExplainableObject, ExplainableObject
from .c08 import attached_values


def vw(x): return H.view(x)


def combine(op, a, b):
    """expected physical view of `a op b` from the views of the operands"""
    if "empty" in a and "empty" in b: return {"empty": True}
    def num(v):
        if "q" in v: return ("q", v["q"])
        if "hourly" in v: return ("h", v["hourly"])
        if "empty" in v: return ("e", None)
        return ("?", None)
    ka, xa = num(a); kb, xb = num(b)
    f = {"+": lambda x, y: x + y, "-": lambda x, y: x - y, "*": lambda x, y: x * y, "/": lambda x, y: x / y}[op]
    if ka == "e" or kb == "e":
        if op in ("+", "-"): return a if kb == "e" else b
        return {"empty": True}
    if ka == "q" and kb == "q": return {"q": f(xa, xb)}
    if ka == "h" and kb == "q": return {"hourly": {k: f(v, xb) for k, v in xa.items()}}
    if ka == "q" and kb == "h": return {"hourly": {k: f(xa, v) for k, v in xb.items()}}
    if ka == "h" and kb == "h":
        keys = set(xa) | set(xb) if op in ("+", "*") else set(xa)
        return {"hourly": {k: f(xa.get(k, 0.0), xb.get(k, 0.0)) for k in keys}}
    return None


def same(got, want, rel=1e-9):
    if want is None: return True
    if "empty" in want: return "empty" in got
    if "q" in want: return "q" in got and H.close(got["q"], want["q"], rel, 1e-12 + 1e-9 * abs(want["q"]))
    if "hourly" in want:
        if "hourly" not in got or set(got["hourly"]) != set(want["hourly"]): return False
        return all(H.close(got["hourly"][k], v, rel, 1e-12) for k, v in want["hourly"].items())
    return True


def walk(root, seen, fails, stats, where):
    stack = [root]
    while stack:
        n = stack.pop()
        if id(n) in seen or not isinstance(n, ExplainableObject): continue
        seen.add(id(n))
        l, r = n.left_parent, n.right_parent
        if l is None and r is None:
            stats["leaves"] += 1
            if not n.label: fails.append(f"leaf-without-label:{where}")
            if n.modeling_obj_container is not None and n.source is None and not isinstance(n, EmptyExplainableObject):
                fails.append(f"input-leaf-without-source:{where}:{n.label}")
            if n.source is None: stats["leaves_without_source"] += 1
            continue
        for p in (l, r):
            if p is not None: stack.append(p)
        if n.operator in ("+", "-", "*", "/") and l is not None and r is not None:
            stats["nodes"] += 1
            try:
                want = combine(n.operator, vw(l), vw(r))
            except ZeroDivisionError:
                want = None
            got = vw(n)
            if not same(got, want): fails.append(f"node-not-reproduced:{where}:{n.operator}:{str(n.label)[:50]}")
            # dimension
            try:
                ul = l.value.units if isinstance(l, ExplainableQuantity) else (l.unit if isinstance(l, ExplainableHourlyQuantities) else None)
                ur = r.value.units if isinstance(r, ExplainableQuantity) else (r.unit if isinstance(r, ExplainableHourlyQuantities) else None)
                un = n.value.units if isinstance(n, ExplainableQuantity) else (n.unit if isinstance(n, ExplainableHourlyQuantities) else None)
                if ul is not None and ur is not None and un is not None:
                    exp = {"+": ul, "-": ul, "*": ul * ur, "/": ul / ur}[n.operator]
                    if (1 * un).dimensionality != (1 * exp).dimensionality: fails.append(f"node-dimension:{where}:{n.operator}")
            except Exception:
                pass


def check_system(system):
    fails, stats = [], {"nodes": 0, "leaves": 0, "leaves_without_source": 0, "attributes": 0}
    seen = set()
    for name, obj, k, v in attached_values(system):
        if k not in obj.calculated_attributes: continue
        stats["attributes"] += 1
        if not getattr(v, "label", None): fails.append(f"calculated-attribute-without-label:{name}")
        try:
            s = v.explain()
            if not isinstance(s, str) or not s: fails.append(f"explain-empty:{name}")
        except Exception as ex:
            fails.append(f"explain-raises:{name}:{type(ex).__name__}")
        walk(v, seen, fails, stats, name)
    return fails, stats


def _case(args):
    kind, tname, spec, idx = args
    H.deterministic_ids(12)
    out = {"case": f"{tname}|{idx}", "status": "ok", "fails": [], "stats": {}}
    try:
        if kind == "services":
            b = H.build_services_system()
        else:
            b = H.build(spec)
            if idx is not None:
                eds = H.numeric_edits(spec) + H.link_edits(spec)
                out["case"] = f"{tname}|after {eds[idx].name}"
                eds[idx].live(b)
        if kind == "json":
            # a saved and re-loaded system explains itself like the original: every input that carried a source still carries it
            import json as _json
            from efootprint.api_utils.system_to_json import system_to_json
            from efootprint.api_utils.json_to_system import json_to_system
            def sources(system):
                d = {}
                for o in H.all_objects(system):
                    o = getattr(o, "_value", o)
                    for k, v in o.__dict__.items():
                        if k in o.calculated_attributes or not hasattr(v, "source"): continue
                        d[(o.id, k)] = getattr(getattr(v, "source", None), "name", None)
                return d
            before = sources(b.system)
            j = _json.loads(_json.dumps(system_to_json(b.system, save_calculated_attributes=False)))
            cls_dict, flat = json_to_system(j)
            s2 = next(iter(cls_dict["System"].values()))
            after = sources(s2)
            lost = sorted(f"{k[1]}" for k, v in before.items() if v is not None and after.get(k) is None)
            fails2, stats2 = check_system(s2)
            out["case"] = f"{tname}|after a JSON round trip"
            out["fails"] = fails2 + ([f"input-source-lost-on-load:{lost[:4]} ({len(lost)} inputs)"] if lost else []); out["stats"] = stats2
            if out["fails"]: out["status"] = "fails"
            return out
        out["fails"], out["stats"] = check_system(b.system)
        if out["fails"]: out["status"] = "fails"
    except Exception as ex:
        if H.is_float_cancellation_rejection(ex): out["status"] = "D3"
        else: out["status"] = "harness-error"; out["error"] = traceback.format_exc()[-800:]
    return out


# ---------------------------------------------------------------------------------------------------- the displayed formula
def _trees(depth, ops=("+", "-", "*", "/")):
    """every expression tree (left, op, right) of at most `depth` levels, leaves numbered in order of appearance"""
    if depth == 1: return ["leaf"]
    sub = _trees(depth - 1, ops)
    return ["leaf"] + [(a, op, b) for op in ops for a in sub for b in sub]


def _printer_chunk(args):
    """print_tuple_element (the REAL method) on symbolic trees: the text, read with the ordinary precedence of + - * /, must denote the
    tree it was printed from (evaluated on distinct exact rationals, so a misplaced parenthesis changes the value)"""
    from fractions import Fraction
    lo, hi, depth = args
    trees = _trees(depth)[lo:hi]
    from efootprint.abstract_modeling_classes.explainable_objects import ExplainableQuantity
    from efootprint.constants.units import u
    primes = [3, 5, 7, 11, 13, 17, 19, 23, 29, 31, 37, 41, 43, 47, 53, 59]
    leaves = [ExplainableQuantity(p * u.dimensionless, f"x{k}") for k, p in enumerate(primes)]
    printer = leaves[0]
    fails = []
    for t in trees:
        cnt = [0]
        def inst(x):
            if x == "leaf":
                k = cnt[0]; cnt[0] += 1; return leaves[k]
            return (inst(x[0]), x[1], inst(x[2]))
        def ev(x):
            if not isinstance(x, tuple): return Fraction(int(x.value.magnitude))
            a, b = ev(x[0]), ev(x[2])
            return {"+": a + b, "-": a - b, "*": a * b, "/": a / b if b != 0 else None}[x[1]] if a is not None and b is not None else None
        it = inst(t)
        if not isinstance(it, tuple): continue
        want = ev(it)
        if want is None: continue
        txt = printer.print_tuple_element(it, print_values_instead_of_labels=False)
        env = {f"x{k}": Fraction(p) for k, p in enumerate(primes)}
        try:
            got = eval(txt, {"__builtins__": {}}, env)
        except ZeroDivisionError:
            continue
        except Exception as ex:
            fails.append(f"displayed-formula-unreadable:{txt}"); continue
        if got != want: fails.append(f"displayed-formula-denotes-another-value:{txt}")
        if len(fails) >= 5: break
    return {"case": f"printer|trees {lo}..{hi} of depth<={depth}", "status": "fails" if fails else "ok", "fails": fails, "stats": {"nodes": len(trees)}}


def run(tier, seed, procs=16):
    T = H.topologies()
    items = [("services", "services_system", None, None)]
    for tname, spec in T.items():
        items.append(("core", tname, spec, None))
        if tname in ("single", "custom_sources", "two_independent_chains"): items.append(("json", tname, spec, None))
        n = len(H.numeric_edits(spec) + H.link_edits(spec))
        for i in (range(n) if tier == "thorough" else [i for i in range(n) if (i + seed) % 5 == 0]):
            items.append(("core", tname, spec, i))
    res = H.run_parallel(_case, items, procs)
    depth = 4
    ntrees = len(_trees(depth))
    step = 2048
    pres = H.run_parallel(_printer_chunk, [(k, min(k + step, ntrees), depth) for k in range(0, ntrees, step)], procs)
    res += pres
    viol, samples, nontrivial = [], [], 0
    tot = {"nodes": 0, "leaves": 0, "leaves_without_source": 0, "attributes": 0}
    for r in res:
        if r["status"] == "harness-error": raise RuntimeError("bounded harness error: " + r.get("error", ""))
        if r["status"] == "D3":
            viol.append({"signature": "D3", "what": "deletion-free model rejected", "input": {"case": r["case"]}}); continue
        for k in tot: tot[k] += r["stats"].get(k, 0)
        if r["stats"].get("nodes", 0) > 0: nontrivial += 1
        if len(samples) < 3: samples.append({"case": r["case"], "nodes_reevaluated": r["stats"].get("nodes"), "result": r["status"]})
        for f in sorted(set(r["fails"])):
            viol.append({"signature": f"C07|{r['case']}|{f}", "what": f"C07 {r['case']}: {f}", "input": {"case": r["case"]}})
    return {"evaluations": len(res), "distinct_nontrivial": nontrivial,
            "rule": "one case = a computed system (core topologies as built / after one edit, and one system with every builder class); every +,-,*,/ node of every explanation tree of every calculated attribute "
                    "is re-evaluated from its recorded operands on physical values and dimensions; the formula text printed for an expression tree denotes that tree; explain() must return text; leaves must be labelled, input leaves must have a source",
            "samples": samples, "violations": viol, "exhaustive": False, "nodes_reevaluated": tot["nodes"], "leaves": tot["leaves"],
            "leaves_without_source_reported_not_alarmed": tot["leaves_without_source"], "attributes_explained": tot["attributes"],
            "displayed_formula": f"print_tuple_element on ALL {ntrees} expression trees over + - * / with at most {depth} levels (exhaustive for that depth): the text read with ordinary precedence denotes the tree",
            "bound": f"{len(T)} topologies (+ every fifth / every single edit) + the services system; displayed formulas: all trees of depth <= {depth}"}
