"""Run-time twins of the numeric contracts (C02, C03, C04) evaluated on real computed systems."""
from __future__ import annotations
import copy, math, traceback
from . import harness as H
from .harness import u, EmptyExplainableObject, ExplainableHourlyQuantities, ExplainableQuantity

TOL = 1e-9


def series(v):
    """{timestamp: phys} of an explainable value (Empty -> {})"""
    w = H.view(v)
    return dict(w["hourly"]) if "hourly" in w else {}


def phys(q):
    return H.view(q)["q"]


def close(a, b, rel=TOL, abs_=1e-12):
    return abs(a - b) <= abs_ + rel * max(abs(a), abs(b))


def series_equal(a, b, rel=TOL, abs_=1e-12, keys="strict"):
    ks = set(a) | set(b)
    if keys == "strict" and set(a) != set(b):
        # an hour missing on one side must be zero on the other (Empty / fill semantics)
        pass
    return all(close(a.get(k, 0.0), b.get(k, 0.0), rel, abs_) for k in ks)


def add(*ss):
    out = {}
    for s in ss:
        for k, v in s.items(): out[k] = out.get(k, 0.0) + v
    return out


def scale(s, c): return {k: v * c for k, v in s.items()}


def shift(s, hours):
    import pandas as pd
    return {str(pd.Timestamp(k) + pd.Timedelta(hours=hours)): v for k, v in s.items()}


def components(system):
    """servers / storages / networks / usage patterns reached by walking the links, de-duplicated by IDENTITY"""
    ups = list(system.usage_patterns)
    servers, storages, networks = {}, {}, {}
    for up in ups:
        networks[id(up.network._value)] = up.network._value
        for st in up.usage_journey.uj_steps:
            for job in st.jobs:
                srv = job.server
                srv = getattr(srv, "_value", srv)
                servers[id(srv)] = srv
                sto = getattr(srv.storage, "_value", srv.storage)
                storages[id(sto)] = sto
    return list(servers.values()), list(storages.values()), list(networks.values()), [getattr(x, "_value", x) for x in ups]


def jobs_of_up(up):
    seen = {}
    for st in up.usage_journey.uj_steps:
        for job in st.jobs:
            j = getattr(job, "_value", job); seen[id(j)] = j
    return list(seen.values())


def check_c02(b):
    fails = []
    sysm = b.system
    servers, storages, networks, ups = components(sysm)
    # each object's energy footprint = energy x the carbon intensity that applies
    for s in servers:
        exp = scale(series(s.instances_energy), phys(s.average_carbon_intensity))
        if not series_equal(series(s.energy_footprint), exp): fails.append(f"server-ef:{s.name}")
    for st in storages:
        srv = st.server
        exp = scale(series(st.instances_energy), phys(srv.average_carbon_intensity)) if srv is not None else {}
        if not series_equal(series(st.energy_footprint), exp): fails.append(f"storage-ef-uses-its-server-intensity:{st.name}")
    for up in ups:
        exp = scale(series(up.devices_energy), phys(up.country.average_carbon_intensity))
        if not series_equal(series(up.energy_footprint), exp): fails.append(f"devices-ef:{up.name}")
    for n in networks:
        exp = {}
        for up in ups:
            if getattr(up.network, "_value", up.network) is not n: continue
            tr = {}
            for job in jobs_of_up(up):
                d = job.hourly_data_transferred_per_usage_pattern
                ent = [v for k, v in d.items() if getattr(k, "_value", k) is up or k == up]
                if ent: tr = add(tr, series(ent[0]))
            exp = add(exp, scale(tr, phys(n.bandwidth_energy_intensity) * phys(up.country.average_carbon_intensity)))
        if not series_equal(series(n.energy_footprint), exp): fails.append(f"network-ef-per-usage-pattern-country:{n.name}")
    # hourly total = sum over every component exactly once
    tot = {}
    for o in servers + storages: tot = add(tot, series(o.energy_footprint), series(o.instances_fabrication_footprint))
    for n in networks: tot = add(tot, series(n.energy_footprint))
    for up in ups: tot = add(tot, series(up.energy_footprint), series(up.instances_fabrication_footprint))
    got = series(sysm.total_footprint)
    if not series_equal(got, tot, rel=1e-9, abs_=0.6e-4): fails.append("total=sum-of-components-once")
    # views
    ef, ff = sysm.energy_footprints, sysm.fabrication_footprints
    for cat, objs in (("Servers", servers), ("Storage", storages), ("Devices", ups)):
        if sorted(ef[cat].keys()) != sorted(o.id for o in objs): fails.append(f"energy_footprints[{cat}]-keys")
        if sorted(ff[cat].keys()) != sorted(o.id for o in objs): fails.append(f"fabrication_footprints[{cat}]-keys")
    if sorted(ef["Network"].keys()) != sorted(o.id for o in networks): fails.append("energy_footprints[Network]-keys")
    sum_ef = sysm.energy_footprint_sum_over_period; sum_ff = sysm.fabrication_footprint_sum_over_period
    tot_e = sysm.total_energy_footprint_sum_over_period; tot_f = sysm.total_fabrication_footprint_sum_over_period
    grand = 0.0
    for cat in ef:
        ce = sum(sum(series(v).values()) for v in ef[cat].values()); cf = sum(sum(series(v).values()) for v in ff[cat].values())
        if not close(sum(phys(v) for v in sum_ef[cat].values()), ce, 1e-9, 1e-9): fails.append(f"energy_sum_over_period[{cat}]")
        if not close(sum(phys(v) for v in sum_ff[cat].values()), cf, 1e-9, 1e-9): fails.append(f"fabrication_sum_over_period[{cat}]")
        if not close(phys(tot_e[cat]), ce, 1e-9, 1e-9): fails.append(f"total_energy_sum_over_period[{cat}]")
        if not close(phys(tot_f[cat]), cf, 1e-9, 1e-9): fails.append(f"total_fabrication_sum_over_period[{cat}]")
        grand += ce + cf
    if not close(sum(got.values()), grand, 1e-9, 1e-4 * max(1, len(got))): fails.append("sum-of-hourly-total=sum-of-categories")
    # finite, non-negative when nothing deletes data
    deleting = any(phys(j.data_stored) < 0 for up in ups for j in jobs_of_up(up))
    for (o, a), w in H.snapshot(sysm).items():
        vals = list(w["hourly"].values()) if "hourly" in w else ([w["q"]] if "q" in w else [])
        if any(math.isnan(x) or math.isinf(x) for x in vals): fails.append(f"finite:{o}.{a}")
        if not deleting and ("footprint" in a or "energy" in a) and any(x < -1e-12 for x in vals): fails.append(f"non-negative:{o}.{a}")
    return fails


def dur_h(q):
    return H.view(q)["q"] / 3600.0 if "q" in H.view(q) else 0.0


def check_c03(b):
    fails = []
    sysm = b.system
    servers, storages, networks, ups = components(sysm)
    for up in ups:
        utc = series(up.utc_hourly_usage_journey_starts)
        tot_utc = sum(utc.values())
        D = dur_h(up.usage_journey.duration)
        # the journey lasts as long as its steps one after the other, a step visited twice counting twice
        D_steps = sum(dur_h(st.user_time_spent) for st in up.usage_journey.uj_steps)
        if not close(D, D_steps, 1e-12, 1e-12): fails.append(f"journey-duration=sum-of-steps-with-repeats:{up.usage_journey.name}")
        par = series(up.nb_usage_journeys_in_parallel)
        if not close(sum(par.values()), D * tot_utc, 1e-9, 1e-9): fails.append(f"journeys-in-parallel-total:{up.name}")
        P = sum(phys(d.power) for d in up.devices)
        if not close(sum(series(up.devices_energy).values()), sum(par.values()) * P * 3600.0, 1e-9, 1e-6): fails.append(f"devices-energy-total:{up.name}")
        # expected avg: full hours + fractional rest, nothing lost at the edges
        n = math.floor(D + 1e-12); r = D - n
        exp = {}
        for k in range(n): exp = add(exp, shift(utc, k))
        if r > 1e-12: exp = add(exp, scale(shift(utc, n), r))
        if not series_equal(par, exp, 1e-9, 1e-9): fails.append(f"journeys-in-parallel-placement:{up.name}")
        for job in jobs_of_up(up):
            occd = [v for k, v in job.hourly_occurrences_per_usage_pattern.items() if getattr(k, "_value", k) is up or k == up]
            occ = series(occd[0]) if occd else {}
            # placement: journey start shifted by the whole hours of the preceding steps, once per appearance
            exp, delay, mult = {}, 0.0, 0
            for st in up.usage_journey.uj_steps:
                m = sum(1 for j in st.jobs if getattr(j, "_value", j) is job)
                if m: exp = add(exp, scale(shift(utc, math.floor(delay / 3600.0 + 1e-12)), m)); mult += m
                delay += phys(st.user_time_spent)
            if not series_equal(occ, exp, 1e-9, 1e-9): fails.append(f"occurrences-placement:{job.name}@{up.name}")
            if not close(sum(occ.values()), mult * tot_utc, 1e-9, 1e-9): fails.append(f"occurrences-total:{job.name}@{up.name}")
            Dj = dur_h(job.request_duration)
            for attr, X in (("hourly_data_transferred_per_usage_pattern", phys(job.data_transferred)), ("hourly_data_stored_per_usage_pattern", phys(job.data_stored))):
                dd = [v for k, v in getattr(job, attr).items() if getattr(k, "_value", k) is up or k == up]
                got = sum(series(dd[0]).values()) if dd else 0.0
                if not close(got, X * sum(occ.values()), 1e-9, 1e-3): fails.append(f"{attr}-total:{job.name}@{up.name}")
            av = [v for k, v in job.hourly_avg_occurrences_per_usage_pattern.items() if getattr(k, "_value", k) is up or k == up]
            if not close(sum(series(av[0]).values()) if av else 0.0, Dj * sum(occ.values()), 1e-9, 1e-9): fails.append(f"occurrence-hours-total:{job.name}@{up.name}")
    for s in servers:
        for res, attr in (("ram", "ram_needed"), ("compute", "compute_needed")):
            exp = {}
            for job in s.jobs:
                exp = add(exp, scale(series(job.hourly_avg_occurrences_across_usage_patterns), phys(getattr(job, attr))))
            if not series_equal(series(getattr(s, f"hour_by_hour_{res}_need")), exp, 1e-9, 1e-3): fails.append(f"server-need-{res}:{s.name}")
    return fails


def check_c04(b):
    fails = []
    servers, storages, networks, ups = components(b.system)
    for s in servers:
        raw, nb = series(s.raw_nb_of_instances), series(s.nb_of_instances)
        st = s.server_type.value
        if set(raw) != set(nb): fails.append(f"nb-index:{s.name}")
        for t, r in raw.items():
            x = nb.get(t, 0.0)
            if x < r - 1e-9: fails.append(f"nb>=raw:{s.name}"); break
            if st == "serverless" and not close(x, r): fails.append(f"serverless-nb=raw:{s.name}"); break
            if st == "autoscaling" and not close(x, math.ceil(r - 1e-12)): fails.append(f"autoscaling-nb=ceil(raw):{s.name}"); break
        if st == "on-premise" and nb:
            vals = set(round(v, 9) for v in nb.values())
            if len(vals) != 1: fails.append(f"on-premise-constant:{s.name}")
            peak = math.ceil(max(raw.values()) - 1e-12)
            fixed = s.fixed_nb_of_instances
            if isinstance(fixed, EmptyExplainableObject):
                if not close(max(nb.values()), peak): fails.append(f"on-premise-nb=ceil(peak):{s.name}")
            else:
                if not close(max(nb.values()), phys(fixed)): fails.append(f"fixed-count-honoured-exactly:{s.name}")
                if phys(fixed) < peak - 1e-9: fails.append(f"fixed-count-under-provisions-silently:{s.name}")
    for sto in storages:
        cum = series(sto.full_cumulative_storage_need); delta = series(sto.storage_delta)
        run, base = 0.0, phys(sto.base_storage_need)
        for t in sorted(delta):
            run += delta[t]
            if not close(cum.get(t, float("nan")), base + run, 1e-9, 1e-3): fails.append(f"cumulative=base+running-sum:{sto.name}"); break
        if any(v < -1e-6 for v in cum.values()): fails.append(f"cumulative-negative:{sto.name}")
        # delta = replicated writes - expiries - deletions, by timestamp
        rep = phys(sto.data_replication_factor)
        needed, freed = {}, {}
        for job in sto.jobs:
            tgt = needed if phys(job.data_stored) >= 0 else freed
            for k, v in series(job.hourly_data_stored_across_usage_patterns).items(): tgt[k] = tgt.get(k, 0.0) + v * rep
        S = math.ceil(phys(sto.data_storage_duration) / 3600.0 - 1e-12)
        tmax = max(needed) if needed else None
        dumps = {k: -v for k, v in shift(needed, S).items() if tmax is not None and k <= tmax}
        if not series_equal(delta, add(needed, freed, dumps), 1e-9, 1e-3): fails.append(f"storage-delta-by-timestamp:{sto.name}")
        nb, act = series(sto.nb_of_instances), series(sto.nb_of_active_instances)
        cap = phys(sto.storage_capacity)
        for t, c in cum.items():
            if nb.get(t, 0.0) * cap < c - 1e-3: fails.append(f"storage-nb-covers-cumulative:{sto.name}"); break
        # a user-fixed count is honoured exactly at every hour (a count below the peak need must have been refused); no fixed count: ceil(need / capacity)
        sfixed = sto.fixed_nb_of_instances
        if cum and nb:
            if isinstance(sfixed, EmptyExplainableObject):
                for t, c in cum.items():
                    # within float noise of a whole number either neighbouring ceiling is accepted (floats are not reals: assumption A-REAL)
                    if not any(close(nb.get(t, float("nan")), float(math.ceil(c / cap + e_)), 1e-9, 1e-9) for e_ in (-1e-9, 1e-9)): fails.append(f"storage-nb=ceil(cumulative/capacity):{sto.name}"); break
            else:
                if any(not close(v, phys(sfixed), 1e-9, 1e-9) for v in nb.values()) or set(nb) != set(cum): fails.append(f"storage-fixed-count-honoured-exactly:{sto.name}")
                if phys(sfixed) < max(math.ceil(c / cap - 1e-9) for c in cum.values()) - 1e-9: fails.append(f"storage-fixed-count-under-provisions-silently:{sto.name}")
        for t, a in act.items():
            if a > nb.get(t, 0.0) + 1e-9: fails.append(f"active<=provisioned:{sto.name}"); break
        for t in set(needed) | set(freed) | set(dumps):
            exp = min((max(abs(needed.get(t, 0.0)), abs(freed.get(t, 0.0))) + abs(dumps.get(t, 0.0))) / cap, abs(nb.get(t, 0.0)))
            if not close(act.get(t, 0.0), exp, 1e-9, 1e-9): fails.append(f"active-by-timestamp:{sto.name}"); break
    return fails


CHECKS = {"C02": check_c02, "C03": check_c03, "C04": check_c04}


def _scenario(args):
    prop, tname, spec, idx = args
    H.deterministic_ids(2)
    out = {"topology": tname, "edit": None, "fails": [], "status": "ok"}
    try:
        eds = H.numeric_edits(spec) + H.link_edits(spec)
        try:
            b = H.build(spec)
            if isinstance(idx, tuple) and idx and idx[0] == "grouped":
                ne = H.numeric_edits(spec)
                out["edit"] = "ONE UPDATE: " + " + ".join(ne[k].name for k in idx[1:])
                H.ModelingUpdate([ne[k].change(b) for k in idx[1:]])
                idx = None
            if idx is not None:
                seq = idx if isinstance(idx, tuple) else (idx,)
                out["edit"] = " ; ".join(eds[k].name for k in seq)
                s_after = copy.deepcopy(spec); shared_on_the_way = H.has_shared_job(s_after)
                for k in seq:
                    eds[k].live(b)
                    try: eds[k].spec(s_after)
                    except Exception: pass
                    shared_on_the_way = shared_on_the_way or H.has_shared_job(s_after)
                out["shared_on_the_way"] = shared_on_the_way
        except Exception as ex:
            out["status"] = "D3" if H.is_float_cancellation_rejection(ex) else "raises"
            out["error"] = f"{type(ex).__name__}: {str(ex)[:150]}"
            return out
        out["shared"] = H.has_shared_job(b.spec) or out.get("shared_on_the_way", False)      # a link edit of the history may create the sharing (D1)
        out["fails"] = CHECKS[prop](b)
    except Exception:
        out["status"] = "harness-error"; out["error"] = traceback.format_exc()[-800:]
    return out


def extra_specs(prop):
    """property-specific scenarios beyond the common topologies"""
    out = {}
    T = H.topologies()
    if prop == "C04":
        s = copy.deepcopy(T["two_servers_repeated_job"])
        s["servers"]["srv0"]["fixed_nb_of_instances"] = (3, "dimensionless")
        out["fixed_on_premise"] = s
        s = copy.deepcopy(T["two_journeys_sharing_job"]); s["storages"]["st0"]["fixed_nb_of_instances"] = (50, "dimensionless")
        out["fixed_storage_with_deletions"] = s
        s = copy.deepcopy(T["two_independent_chains"]); s["storages"]["st1"]["data_storage_duration"] = (2, "hour")
        out["short_storage_duration"] = s
        s = copy.deepcopy(T["server_shared_by_two_journeys"]); s["servers"]["srv0"].update({"base_ram_consumption": (20, "GB"), "server_utilization_rate": (0.5, "dimensionless")})
        out["base_consumption"] = s
    if prop == "C02":
        s = copy.deepcopy(T["two_independent_chains"])
        for sec in ("storages", "servers", "jobs"):
            for k in s[sec]: s[sec][k]["display_name"] = "same name"
        out["same_name_objects"] = s
    return out


def run_prop(prop, tier, seed, procs=16):
    T = dict(H.topologies()); T.update(extra_specs(prop))
    items = []
    for tname, spec in T.items():
        items.append((prop, tname, spec, None))
        n = len(H.numeric_edits(spec) + H.link_edits(spec))
        for i in range(n): items.append((prop, tname, spec, i))
        if prop == "C02" and tname in ("single", "two_independent_chains", "two_servers_repeated_job"):
            # one update carrying two numeric changes (the stored total must still be the sum of the recomputed components)
            import random
            ne = H.numeric_edits(spec); rg = random.Random(f"{seed}|{tname}|grouped")
            pairs = [(i, j) for i in range(len(ne)) for j in range(len(ne)) if i != j and ne[i].name.split("=")[0] != ne[j].name.split("=")[0]]
            for i, j in (pairs if tier == "thorough" else rg.sample(pairs, min(len(pairs), 120))): items.append((prop, tname, spec, ("grouped", i, j)))
        if tier == "thorough":
            import random
            rnd = random.Random(f"{seed}|{tname}")
            for _ in range(60):
                i, j = rnd.randrange(n), rnd.randrange(n)
                if i != j: items.append((prop, tname, spec, (i, j)))
    res = H.run_parallel(_scenario, items, procs)
    viol, samples, nontrivial = [], [], 0
    for r in res:
        if r["status"] == "harness-error": raise RuntimeError("bounded harness error: " + r.get("error", ""))
        if r["status"] == "D3":
            viol.append({"signature": "D3", "what": r.get("error", ""), "input": {"topology": r["topology"], "edit": r["edit"]}}); continue
        if r["status"] == "raises": continue
        nontrivial += 1
        if len(samples) < 3: samples.append({"topology": r["topology"], "edit_applied_first": r["edit"], "clauses_failing": r["fails"]})
        for f in sorted(set(r["fails"])):
            sig = f"{prop}|{r['topology']}|{r['edit']}|{f}"
            if r.get("shared") and r["edit"] is not None: sig = "D1"      # stale state of known finding D1 shows through
            viol.append({"signature": sig, "what": f"{prop} clause '{f}' fails on topology '{r['topology']}'" + (f" after edit {r['edit']}" if r["edit"] else ""),
                         "input": {"topology": r["topology"], "edit": r["edit"]}})
    return {"evaluations": len(res), "distinct_nontrivial": nontrivial,
            "rule": f"one case = a topology, optionally after one edit of the alphabet; the run-time form of the {prop} contract clauses is evaluated on every object of the computed system; non-trivial = the system computed without raising",
            "samples": samples, "violations": viol, "exhaustive": False,
            "bound": f"{len(T)} topologies x (as built + every single edit of the alphabet{' + 60 seeded sequences of two edits' if tier == 'thorough' else ''}), series of 6-10 hours"}
