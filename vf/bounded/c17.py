"""C17 bounded stand-in: builders are faithful shorthand.

(1) derived parameters follow the builders' stated rules, recomputed here independently (pint arithmetic on the builder
    inputs; the packaged data tables -- ecologits models, ecobenchmark csv, boavizta archetypes -- are read directly: trusted data);
(2) the model with service jobs / a cloud server has the footprint of the model where they are replaced by plain jobs / a plain
    server carrying those parameters, the services' base consumption being added to the server's;
(3) derived parameters and footprints are refreshed when a builder input changes (compared with a freshly built system)."""
from __future__ import annotations
import copy, re, traceback
from . import harness as H
from .harness import u, SourceValue, SourceObject, Job, Server, Storage, ServerTypes, ModelingUpdate


def qclose(a, b, rel=1e-9):
    # bit / byte are dimensionless in this registry: compare dimensionality and the magnitude in base units
    if a.dimensionality != b.dimensionality: return False
    a = a.to_base_units(); b = b.to_base_units()
    return H.close(float(a.magnitude), float(b.magnitude), rel, 1e-15)


def expected_video(job):
    svc = job.service
    m = re.search(r"\((\d+)\s*x\s*(\d+)\)", job.resolution.value)
    pixels = int(m.group(1)) * int(m.group(2))
    bitrate = pixels * svc.bits_per_pixel.value * job.refresh_rate.value
    dur = job.video_duration.value
    return {"request_duration": dur, "dynamic_bitrate": bitrate, "data_transferred": bitrate * dur,
            "compute_needed": svc.static_delivery_cpu_cost.value * bitrate, "ram_needed": svc.ram_buffer_per_user.value}


def expected_webapp(job):
    from efootprint.builders.services.web_application import ECOBENCHMARK_DF
    df = ECOBENCHMARK_DF
    row = df[(df["service"] == job.service.technology.value) & (df["use_case"] == job.implementation_details.value)].iloc[0]
    return {"request_duration": 1 * u.s, "compute_needed": float(row["avg_cpu_core_per_request"]) * u.cpu_core, "ram_needed": float(row["avg_ram_per_request_in_MB"]) * u.MB}


def params_of(provider, model_name):
    from efootprint.builders.services.generative_ai_ecologits import models
    from ecologits.utils.range_value import RangeValue
    p = models.find_model(provider=provider, model_name=model_name).architecture.parameters
    avg = lambda x: (x.min + x.max) / 2 if isinstance(x, RangeValue) else x
    if isinstance(p, (int, float, RangeValue)): return avg(p) * 1e9, avg(p) * 1e9
    return avg(p.active) * 1e9, avg(p.total) * 1e9


def expected_genai(job):
    svc = job.service
    active, total = params_of(svc.provider.value, svc.model_name.value)
    tokens = job.output_token_count.value
    weights = tokens * svc.bits_per_token.value
    return {"output_token_weights": weights, "data_stored": 100 * u.kB + weights, "data_transferred": 100 * u.kB + weights,
            "request_duration": tokens * (svc.gpu_latency_alpha.value * active + svc.gpu_latency_beta.value),
            "ram_needed": 0 * u.GB,
            "compute_needed": svc.llm_memory_factor.value * active * svc.nb_of_bits_per_parameter.value / job.server.ram_per_gpu.value}, \
        {"active_params": active * u.dimensionless, "total_params": total * u.dimensionless,
         "base_ram_consumption": svc.llm_memory_factor.value * total * svc.nb_of_bits_per_parameter.value}


def expected_gpu_server(s):
    return {"carbon_footprint_fabrication": s.carbon_footprint_fabrication_without_gpu.value + s.compute.value * s.carbon_footprint_fabrication_per_gpu.value,
            "power": s.gpu_power.value * s.compute.value, "idle_power": s.gpu_idle_power.value * s.compute.value, "ram": s.ram_per_gpu.value * s.compute.value}


def expected_cloud(s):
    from efootprint.builders.hardware.boaviztapi_utils import call_boaviztapi
    r = call_boaviztapi(url=s.impact_url, params={"provider": s.provider.value, "instance_type": s.instance_type.value})
    return {"carbon_footprint_fabrication": r["impacts"]["gwp"]["embedded"]["value"] * u.kg, "power": r["verbose"]["avg_power"]["value"] * u.W,
            "ram": r["verbose"]["memory"]["value"] * u.GB, "compute": r["verbose"]["vcpu"]["value"] * u.cpu_core}


def check_derived(b):
    fails = []
    for k, want in getattr(b, "given", {}).items():
        key, attr = k.split(".")
        v = getattr(b[key], attr)
        if isinstance(v, H.EmptyExplainableObject) or not qclose(v.value, want * u.dimensionless): fails.append(f"constructor-input-not-kept:{k}: {v} != {want}")
    for key, exp in (("video_job", expected_video(b["video_job"])), ("webapp_job", expected_webapp(b["webapp_job"])), ("genai_job", expected_genai(b["genai_job"])[0]),
                     ("genai", expected_genai(b["genai_job"])[1]), ("gpu", expected_gpu_server(b["gpu"])), ("cloud", expected_cloud(b["cloud"]))):
        for attr, want in exp.items():
            got = getattr(b[key], attr).value
            try:
                ok = qclose(got, want)
            except Exception:
                ok = False
            if not ok: fails.append(f"derived:{key}.{attr}: {got} != {want}")
    return fails


class GpuJob(Job):
    """plain job whose compute is expressed in gpu (a plain Job validates compute_needed against a cpu_core default)"""
    @classmethod
    def default_values(cls):
        d = Job.default_values(); d["compute_needed"] = SourceValue(1 * u.gpu); return d


class GpuPlainServer(Server):
    """plain server whose compute is expressed in gpu (a plain Server validates compute against a cpu_core default)"""
    @classmethod
    def default_values(cls):
        d = Server.default_values(); d["compute"] = SourceValue(1 * u.gpu); d["base_compute_consumption"] = SourceValue(0 * u.gpu); return d


def plain_twin(b):
    """the same model with every builder object replaced by a plain one carrying the derived parameters"""
    from efootprint.core.usage.usage_journey import UsageJourney
    from efootprint.core.usage.usage_journey_step import UsageJourneyStep
    from efootprint.core.usage.usage_pattern import UsagePattern
    from efootprint.core.hardware.network import Network
    from efootprint.core.hardware.device import Device
    from efootprint.core.system import System
    from efootprint.constants.countries import Countries
    from efootprint.core.hardware.gpu_server import GPUServer
    cp = lambda eq: SourceValue(eq.value)
    cloud, gpu = b["cloud"], b["gpu"]
    def plain_server(name, s, extra_ram, extra_compute, compute_unit, extra_kw=None):
        extra_kw = extra_kw or {}
        cls = GpuPlainServer if compute_unit == u.gpu else Server
        return cls(name, server_type=SourceObject(s.server_type.value), carbon_footprint_fabrication=cp(s.carbon_footprint_fabrication), power=cp(s.power),
                      lifespan=cp(s.lifespan), idle_power=cp(s.idle_power), ram=cp(s.ram), compute=cp(s.compute), power_usage_effectiveness=cp(s.power_usage_effectiveness),
                      average_carbon_intensity=cp(s.average_carbon_intensity), server_utilization_rate=cp(s.server_utilization_rate),
                      base_ram_consumption=SourceValue(s.base_ram_consumption.value + extra_ram), base_compute_consumption=SourceValue(s.base_compute_consumption.value + extra_compute),
                      storage=Storage.ssd(name + " storage"), **extra_kw)
    vid, web, gen = b["video"], b["webapp"], b["genai"]
    ram_cloud = vid.base_ram_consumption.value + (web.base_ram_consumption.value if not isinstance(web.base_ram_consumption, H.EmptyExplainableObject) else 0 * u.GB)
    given = getattr(b, "given", {})
    # inputs the user gave to the builder are carried to the plain server from what was GIVEN, not from what the builder kept
    ckw = {"fixed_nb_of_instances": SourceValue(given["cloud.fixed_nb_of_instances"] * u.dimensionless)} if "cloud.fixed_nb_of_instances" in given else {}
    p_cloud = plain_server("plain cloud", cloud, ram_cloud, 0 * u.cpu_core, u.cpu_core, ckw)
    p_gpu = plain_server("plain gpu", gpu, gen.base_ram_consumption.value, 0 * u.gpu, u.gpu)
    def pj(name, j, server, cls=Job):
        return cls(name, server=server, data_transferred=cp(j.data_transferred), data_stored=cp(j.data_stored), request_duration=cp(j.request_duration),
                   compute_needed=cp(j.compute_needed), ram_needed=cp(j.ram_needed))
    jobs = [pj("p video", b["video_job"], p_cloud), pj("p web", b["webapp_job"], p_cloud), pj("p genai", b["genai_job"], p_gpu, GpuJob)]
    if "plain_job" in b.obj: jobs.append(pj("p plain", b["plain_job"], p_cloud))
    if "video_job_b" in b.obj: jobs.append(pj("p video b", b["video_job_b"], p_cloud))
    step = UsageJourneyStep("p step", user_time_spent=cp(b["step"].user_time_spent), jobs=jobs)
    uj = UsageJourney("p journey", uj_steps=[step])
    up = b["up"]
    pup = UsagePattern("p up", uj, [Device.laptop("p laptop")], Network("p net", cp(b["net"].bandwidth_energy_intensity)), Countries.FRANCE(),
                       H.SourceHourlyValues(up.hourly_usage_journey_starts.value.copy()))
    return System("plain system", [pup]), {"cloud": p_cloud, "gpu": p_gpu, "net": pup.network, "up": pup}


def compare_with_plain(b):
    fails = []
    # a derived parameter that is not a quantity at all (left "no value") cannot be carried by a plain job: the builder model
    # has then no plain counterpart, which is itself a departure from the stated rule
    for jn in ("video_job", "webapp_job", "genai_job"):
        for a in ("data_transferred", "data_stored", "request_duration", "compute_needed", "ram_needed"):
            if isinstance(getattr(b[jn], a), H.EmptyExplainableObject): fails.append(f"derived-parameter-has-no-value:{jn}.{a}")
    if fails: return fails
    ps, po = plain_twin(b)
    pairs = [(b["cloud"], po["cloud"]), (b["gpu"], po["gpu"]), (b["cloud"].storage, po["cloud"].storage), (b["gpu"].storage, po["gpu"].storage),
             (b["net"], po["net"]), (b["up"], po["up"])]
    for x, y in pairs:
        for a in ("energy_footprint", "instances_fabrication_footprint"):
            if not hasattr(x, a): continue
            if not H.view_equal(H.view(getattr(x, a)), H.view(getattr(y, a)), rel=1e-9): fails.append(f"footprint-differs-from-plain-model:{x.name}.{a}")
    if not H.view_equal(H.view(b.system.total_footprint), H.view(ps.total_footprint), rel=1e-9): fails.append("system-total-differs-from-plain-model")
    return fails


ITEMS = []
SKIPPED = []


def all_cloud_instances():
    from efootprint.builders.hardware.boavizta_cloud_server import BoaviztaCloudServer
    d = BoaviztaCloudServer.conditional_list_values()["instance_type"]["conditional_list_values"]
    return sorted((getattr(k, "value", k), getattr(i, "value", i)) for k, v in d.items() for i in v)


def _cloud_chunk(chunk):
    """derived parameters of a stand-alone cloud server for every (provider, instance type) of the chunk, against the packaged data read independently"""
    from efootprint.builders.hardware.boavizta_cloud_server import BoaviztaCloudServer
    fails, skipped = [], []
    from efootprint.builders.hardware.boaviztapi_utils import call_boaviztapi
    for prov, inst in chunk:
        try:
            call_boaviztapi(url="https://api.boavizta.org/v1/cloud/instance", params={"provider": prov, "instance_type": inst})
        except Exception as ex:
            # the third-party boaviztapi package itself fails on this archetype (packaged data error: 6 of 1919 pairs at the pinned
            # version): nothing the e-footprint builder could derive; counted as skipped, listed in the evidence
            skipped.append(f"{prov}/{inst}: boaviztapi raises {type(ex).__name__}"); continue
        try:
            srv = BoaviztaCloudServer.from_defaults("cloud", provider=SourceObject(prov), instance_type=SourceObject(inst), storage=Storage.ssd("cloud storage"))
            for a in ("api_call_response", "carbon_footprint_fabrication", "power", "ram", "compute"): getattr(srv, "update_" + a)()
            for attr, want in expected_cloud(srv).items():
                got = getattr(srv, attr).value
                try: ok = qclose(got, want)
                except Exception: ok = False
                if not ok: fails.append(f"derived:{prov}/{inst}.{attr}: {got} != {want}")
        except Exception as ex:
            fails.append(f"derived:{prov}/{inst}: raised {type(ex).__name__}: {str(ex)[:80]}")
    SKIPPED.extend(skipped)
    return fails


def _case(i):
    kind, kw, change = ITEMS[i]
    H.deterministic_ids(14)
    if kind == "cloud-derived":
        del SKIPPED[:]
        f = _cloud_chunk(kw)
        return {"case": f"cloud-derived|{kw[0]}..{kw[-1]} ({len(kw)} instance types)", "status": "fails" if f else "ok", "fails": f[:6], "skipped": list(SKIPPED)}
    def _lab(c):
        if not callable(c): return str(c)
        try: return str(c().value)
        except TypeError: return "<object of the same system>"
    out = {"case": f"{kind}|{kw}|{(change[0], change[1], _lab(change[2])) if change else None}", "status": "ok", "fails": []}
    try:
        b = H.build_services_system(**kw)
        f = []
        if kind == "faithful":
            f += check_derived(b); f += compare_with_plain(b)
        else:
            # refresh: change a builder input on the live system, compare with a system built with the new input
            obj, attr, val, kw2 = change
            try:
                if attr == "provider+model":
                    ModelingUpdate([[b["genai"].provider, SourceObject(val[0])], [b["genai"].model_name, SourceObject(val[1])]])
                else:
                    import inspect as _insp
                    v_ = (val(b) if len(_insp.signature(val).parameters) == 1 else val()) if callable(val) else val
                    setattr(b[obj], attr, v_)
            except Exception as ex:
                if H.is_float_cancellation_rejection(ex): raise
                # every change of the alphabet is a valid builder input (each is also used to build a fresh system below):
                # the library refusing or crashing on it means the derived parameters are not refreshed
                out["fails"] = [f"builder-input-change-raised:{type(ex).__name__}"]; out["status"] = "fails"
                return out
            f += check_derived(b)
            fresh = H.build_services_system(**{**kw, **kw2}) if kw2 is not None else None
            if fresh is not None:
                d = H.diff(H.snapshot(b.system), H.snapshot(fresh.system), rel=1e-9)
                if d: f.append(f"not-refreshed:{[f'{o}.{a}' for o, a in d][:5]}")
            if not kw.get("second_video"): f += compare_with_plain(b)       # (the plain twin models one cloud server only)
        out["fails"] = f
        if f: out["status"] = "fails"
    except Exception as ex:
        if H.is_float_cancellation_rejection(ex): out["status"] = "D3"
        else: out["status"] = "harness-error"; out["error"] = traceback.format_exc()[-900:]
    return out


RESOLUTIONS = ["480p (640 x 480)", "720p (1280 x 720)", "1080p (1920 x 1080)", "1440p (2560 x 1440)", "2K (2048 x 1080)", "4K (3840 x 2160)", "8K (7680 x 4320)"]
TECHS = ["go-pgx", "jvm-kotlin-spring", "node-express-sequelize", "php-symfony", "rust-actix-sqlx"]
MODELS = [("openai", "gpt-3.5-turbo-1106"), ("mistralai", "open-mistral-7b"), ("mistralai", "open-mixtral-8x7b"), ("mistralai", "mistral-medium"),
          ("google", "gemini-1.5-pro"), ("huggingface_hub", "databricks/dbrx-base"), ("cohere", "command")]
INSTANCES = [("scaleway", "ent1-s"), ("aws", "c4.large"), ("scaleway", "ent1-l"), ("azure", "d16ads_v5"), ("gcp", "c4a-standard-16"), ("aws", "c4.xlarge")]


def run(tier, seed, procs=16):
    items = []
    for r in RESOLUTIONS: items.append(("faithful", {"video_resolution": r}, None))
    for t in TECHS: items.append(("faithful", {"technology": t}, None))
    for p, m in MODELS: items.append(("faithful", {"provider": p, "model_name": m}, None))
    for p, i in INSTANCES[:2 if tier == "quick" else 6]: items.append(("faithful", {"cloud_provider": p, "instance_type": i}, None))
    items.append(("faithful", {"with_plain_job": False}, None))
    items.append(("faithful", {"cloud_on_premise_fixed": 40}, None))
    items.append(("faithful", {"twin_video_job": True}, None))      # two service jobs of one server carrying the same name
    Qv = lambda v, un: (lambda: SourceValue(v * un))
    items += [
        ("refresh", {}, ("video_job", "resolution", lambda: SourceObject("4K (3840 x 2160)"), {"video_resolution": "4K (3840 x 2160)"})),
        ("refresh", {"video_resolution": "4K (3840 x 2160)"}, ("video_job", "resolution", lambda: SourceObject("480p (640 x 480)"), {"video_resolution": "480p (640 x 480)"})),
        ("refresh", {}, ("video_job", "video_duration", Qv(45, u.min), None)),
        ("refresh", {}, ("video_job", "refresh_rate", Qv(60, u.dimensionless / u.s), None)),
        ("refresh", {}, ("video", "bits_per_pixel", Qv(0.2, u.dimensionless), None)),
        ("refresh", {}, ("video", "static_delivery_cpu_cost", Qv(8, u.cpu_core / (u.GB / u.s)), None)),
        ("refresh", {}, ("video", "ram_buffer_per_user", Qv(100, u.MB), None)),
        ("refresh", {}, ("video", "base_ram_consumption", Qv(3, u.GB), None)),
        # a base consumption that starts at exactly zero and is then given a value
        ("refresh", {"video_base_ram": 0}, ("video", "base_ram_consumption", Qv(3, u.GB), None)),
        ("refresh", {}, ("webapp", "technology", lambda: SourceObject("rust-actix-sqlx"), {"technology": "rust-actix-sqlx"})),
        ("refresh", {}, ("webapp_job", "implementation_details", lambda: SourceObject("orm-loop"), None)),
        ("refresh", {}, ("genai_job", "output_token_count", Qv(2500, u.dimensionless), None)),
        ("refresh", {}, ("genai", "llm_memory_factor", Qv(1.5, u.dimensionless), None)),
        ("refresh", {}, ("genai", "nb_of_bits_per_parameter", Qv(8, u.dimensionless), None)),
        ("refresh", {}, ("genai", "bits_per_token", Qv(32, u.dimensionless), None)),
        ("refresh", {}, ("genai", "gpu_latency_beta", Qv(0.05, u.s), None)),
        ("refresh", {}, ("genai", "model_name", lambda: SourceObject("gpt-4"), {"model_name": "gpt-4"})),
        ("refresh", {}, ("genai", "provider+model", ("mistralai", "open-mixtral-8x7b"), {"provider": "mistralai", "model_name": "open-mixtral-8x7b"})),
        ("refresh", {}, ("gpu", "compute", Qv(8, u.gpu), None)),
        ("refresh", {}, ("gpu", "ram_per_gpu", Qv(40, u.GB / u.gpu), None)),
        ("refresh", {}, ("gpu", "gpu_power", Qv(300, u.W / u.gpu), None)),
        ("refresh", {}, ("cloud", "instance_type", lambda: SourceObject("ent1-xl"), {"instance_type": "ent1-xl"})),
        # the service job is moved to a service installed on another server that has no job yet
        ("refresh", {"second_video": True}, ("video_job", "service", lambda b: b["video2"], {"video_on_second": True})),
    ]
    inst = all_cloud_instances()
    for k in range(0, len(inst), 64): items.append(("cloud-derived", inst[k:k + 64], None))
    ITEMS[:] = items
    res = H.run_parallel(_case, list(range(len(items))), procs)
    viol, samples, nontrivial, skipped, herr = [], [], set(), [], []
    for r in res:
        skipped += r.get("skipped", [])
        if r["status"] == "harness-error":
            herr.append(r.get("error", "")); continue
        nontrivial.add(r["case"])
        if len(samples) < 4: samples.append({"case": r["case"][:160], "result": r["status"]})
        if r["status"] == "ok": continue
        if r["status"] == "D3":
            viol.append({"signature": "D3", "what": "deletion-free model rejected", "input": {"case": r["case"]}}); continue
        viol.append({"signature": f"C17|{r['case'][:200]}|{';'.join(x.split(':')[0] + ':' + x.split(':')[1] if ':' in x else x for x in r['fails'])[:250]}",
                     "what": f"C17 {r['case'][:200]}: {r['fails'][:4]}", "input": {"case": r["case"]}})
    # a case the harness could not evaluate is a checker error unless other cases already exhibit a violation (then it is reported with them)
    if len(skipped) > 20: raise RuntimeError(f"vacuous: {len(skipped)} cloud instance types skipped: {skipped[:3]}")
    if herr and not viol: raise RuntimeError("bounded harness error: " + herr[0])
    return {"evaluations": len(res), "distinct_nontrivial": len(nontrivial), "harness_errors": len(herr),
            "rule": "one case = a system holding a cloud server, a GPU server, the three services and their jobs (optionally mixed with a plain job), for a categorical choice (7 resolutions, 5 technologies, 7 models of every parameter-structure kind, 2-6 instance types incl. fractional-memory ones) "
                    "or after changing one builder input on the live system; derived parameters vs the stated rules recomputed independently, footprints vs the plain twin model, refresh vs a fresh build",
            "samples": samples, "violations": viol, "exhaustive": False,
            "skipped_external": skipped,
            "bound": f"{len(items)} cases (builder systems, plus the derived parameters of a stand-alone cloud server for ALL {len(inst)} packaged (provider, instance type) pairs in chunks of 64); data tables (ecologits, ecobenchmark, boavizta archetypes) are trusted data"}
