"""C01 bounded stand-in: incremental recomputation == recomputation from scratch, on the Universe.

Bound: topologies of harness.topologies(); every single edit of the numeric and link alphabets; pairs of edits
(quick: seeded sample, thorough: all ordered pairs on three topologies); undo of numeric edits; previous/initial totals."""
from __future__ import annotations
import copy, random, traceback
from . import harness as H


def _apply(b, edits):
    for e in edits: e.live(b)


def _case(args):
    tname, spec, idxs, kind = args
    H.deterministic_ids(1)
    out = {"topology": tname, "edits": None, "status": "ok", "diff": [], "kind": kind}
    try:
        b = H.build(spec)
        all_edits = H.numeric_edits(spec) + H.link_edits(spec)
        edits = [all_edits[i] for i in idxs]
        out["edits"] = [e.name for e in edits]
        before = H.snapshot(b.system)
        prev_tot = {k: H.view(v) for k, v in b.system.total_energy_footprint_sum_over_period.items()}
        spec2 = copy.deepcopy(spec)
        out["shared"] = H.has_shared_job(spec)
        out["jobless"] = any(not any(spec["steps"][st]["jobs"] for st in j["steps"]) for j in spec["journeys"].values())
        try:
            if kind == "grouped":
                for e in edits: e.spec(spec2)
                out["shared"] = out["shared"] or H.has_shared_job(spec2)
                H.ModelingUpdate([e.change(b) for e in edits])
            for e in (edits if kind != "grouped" else []):
                prev_tot = {k: H.view(v) for k, v in b.system.total_energy_footprint_sum_over_period.items()}
                e.spec(spec2); out["shared"] = out["shared"] or H.has_shared_job(spec2); e.live(b)
        except Exception as ex:
            out["status"] = "edit-raised"; out["error"] = f"{type(ex).__name__}: {str(ex)[:200]}"
            if H.is_float_cancellation_rejection(ex):
                out["status"] = "D3-float-cancellation"; return out
            # an edit refused / failing on the live system must also fail when building from scratch
            try:
                H.build(spec2); out["status"] = "edit-raised-but-fresh-build-succeeds"
            except Exception:
                out["status"] = "both-raise"
            return out
        try:
            fresh = H.build(spec2)
        except Exception as ex:
            if H.is_float_cancellation_rejection(ex):
                out["status"] = "D3-float-cancellation"; return out
            out["status"] = "fresh-build-raises-but-edit-accepted"; out["error"] = f"{type(ex).__name__}: {str(ex)[:200]}"
            return out
        live = H.snapshot(b.system); ref = H.snapshot(fresh.system)
        d = H.diff(live, ref)
        if d:
            out["status"] = "stale"; out["diff"] = [f"{o}.{a}" for o, a in d]
        # bookkeeping: previous totals = totals just before the last edit
        pt = {k: H.view(v) for k, v in b.system.previous_total_energy_footprints_sum_over_period.items()}
        if kind == "single" and spec2 != spec and set(pt) == set(prev_tot) and not all(H.view_equal(pt[k], prev_tot[k]) for k in pt):
            out["status"] = "previous-totals-wrong" if out["status"] == "ok" else out["status"]
        if kind == "undo" and out["status"] == "ok":
            pass
    except Exception as ex:
        out["status"] = "harness-error"; out["error"] = traceback.format_exc()[-600:]
    return out


def signature(r):
    return f"C01|{r['topology']}|{r['kind']}|{' ; '.join(r['edits'] or [])}|{r['status']}|{','.join(sorted(r['diff']))}"


def _services_case(args):
    """builder objects: an edit on a live system holding service jobs vs the same system built with the final inputs"""
    name, kw0, edit, kw1 = args
    H.deterministic_ids(1)
    out = {"topology": "services:" + name, "kind": "single", "edits": [name], "status": "ok", "diff": [], "shared": False}
    try:
        b = H.build_services_system(**kw0)
        edit(b)
        fresh = H.build_services_system(**kw1)
        d = H.diff(H.snapshot(b.system), H.snapshot(fresh.system), rel=1e-9)
        if d: out["status"] = "stale"; out["diff"] = [f"{o}.{a}" for o, a in d][:10]
    except Exception as ex:
        if H.is_float_cancellation_rejection(ex): out["status"] = "D3-float-cancellation"; out["error"] = str(ex)[:100]
        else: out["status"] = "harness-error"; out["error"] = traceback.format_exc()[-700:]
    return out


SERVICES_EDITS = [
    ("video_job.service -> a service on another server, with other parameters", {"second_video": True},
     lambda b: setattr(b["video_job"], "service", b["video2"]), {"video_on_second": True}),
    ("video_job.resolution = 4K", {}, lambda b: setattr(b["video_job"], "resolution", H.SourceObject("4K (3840 x 2160)")), {"video_resolution": "4K (3840 x 2160)"}),
    ("genai.server -> a GPU server with another RAM per GPU", {"second_gpu": True}, lambda b: setattr(b["genai"], "server", b["gpu2"]), {"genai_on_second": True}),
    ("webapp.technology = rust", {}, lambda b: setattr(b["webapp"], "technology", H.SourceObject("rust-actix-sqlx")), {"technology": "rust-actix-sqlx"}),
]


def run(tier, seed, procs=16):
    rnd = random.Random(seed)
    T = H.topologies()
    singles = []
    for tname, spec in T.items():
        n = len(H.numeric_edits(spec) + H.link_edits(spec))
        singles += [(tname, spec, (i,), "single") for i in range(n)]
    res = H.run_parallel(_case, singles, procs)
    bad = {(r["topology"], i[2][0]) for r, i in zip(res, singles) if r["status"] not in ("ok", "both-raise")}
    pairs, skipped = [], 0
    for tname, spec in T.items():
        n = len(H.numeric_edits(spec) + H.link_edits(spec))
        allp = [(i, j) for i in range(n) for j in range(n) if i != j]
        k = 80 if tier == "quick" else (len(allp) if tname in ("single", "journey_shared_by_two_ups") else 800)
        eds = H.numeric_edits(spec) + H.link_edits(spec)
        for p in rnd.sample(allp, min(k, len(allp))):
            if (tname, p[0]) in bad or (tname, p[1]) in bad: skipped += 1; continue
            if not H.has_shared_job(spec):
                s1 = copy.deepcopy(spec)
                try: eds[p[0]].spec(s1)
                except Exception: pass
                if H.has_shared_job(s1): skipped += 1; continue     # first edit creates the D1 configuration
            pairs.append((tname, spec, p, "pair"))
            if eds[p[0]].change and eds[p[1]].change and eds[p[0]].name.split("=")[0].split("->")[0] != eds[p[1]].name.split("=")[0].split("->")[0]:
                pairs.append((tname, spec, p, "grouped"))
    res += H.run_parallel(_case, pairs, procs)
    res += [_services_case(x) for x in SERVICES_EDITS]
    viol, samples, nontrivial, d3 = [], [], set(), 0
    for r in res:
        if r["status"] == "harness-error":
            raise RuntimeError("bounded harness error: " + r.get("error", ""))
        if r["status"] == "D3-float-cancellation":
            d3 += 1
            viol.append({"signature": "D3", "what": f"deletion-free model rejected: {r.get('error', '')[:160]}", "input": {"topology": r["topology"], "edits": r["edits"]}})
            continue
        if r["status"] in ("ok", "both-raise"):
            nontrivial.add((r["topology"], r["kind"], tuple(r["edits"] or [])))
            if len(samples) < 3: samples.append({"topology": r["topology"], "edits": r["edits"], "result": r["status"]})
            continue
        sig = signature(r)
        # known root causes are recognised by CONFIGURATION (robust to sampling seeds and iteration order), everything else by scenario
        netonly = all((x.startswith("net") and x.endswith(".energy_footprint")) or x == "system.total_footprint" for x in r["diff"])
        is_link = lambda e: "->" in e or ".jobs" in e or ".uj_steps" in e
        if r.get("shared") and r["status"] in ("stale", "edit-raised-but-fresh-build-succeeds"): sig = "D1"
        elif r["kind"] == "grouped" and r["status"] == "stale" and any(is_link(e) for e in r["edits"]) and not all(is_link(e) for e in r["edits"]): sig = "D20"
        elif r.get("jobless") and r["status"] == "stale" and netonly: sig = "D12"
        elif (r["topology"] == "services:genai.server -> a GPU server with another RAM per GPU" and r["status"] == "stale" and "genai_job.compute_needed" in r["diff"]
              and all(x == "genai_job.compute_needed" or x.startswith("gpu2.") or x == "system.total_footprint" for x in r["diff"])): sig = "D22"
        viol.append({"signature": sig, "what": f"C01 on topology '{r['topology']}' after {r['kind']} edits {r['edits']}: {r['status']} "
                     f"{r['diff'][:8]} {r.get('error', '')}", "input": {"topology": r["topology"], "edits": r["edits"]}})
    return {"evaluations": len(res), "distinct_nontrivial": len(nontrivial),
            "rule": "one case = (topology, sequence of 1 or 2 edits); live system after the edits vs a system built from the edited spec; "
                    "every calculated attribute compared hour by hour on physical values (rel 1e-9); non-trivial = the edits were accepted (or refused both ways); "
                    "pairs containing a single edit that already fails alone are skipped (the single is reported)",
            "samples": samples, "violations": viol, "exhaustive": False, "pairs_skipped_because_a_member_fails_alone": skipped,
            "bound": f"{len(T)} topologies, all {len(singles)} single edits, {'sampled' if tier == 'quick' else 'all/sampled'} ordered pairs ({len(pairs)} run), seed {seed}"}
