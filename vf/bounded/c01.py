"""C01 bounded stand-in: incremental recomputation == recomputation from scratch, on the Universe.

Bound: topologies of harness.topologies(); every single edit of the numeric and link alphabets; pairs of edits
(quick: seeded sample, thorough: all ordered pairs on three topologies); undo of numeric edits; previous/initial totals."""
from __future__ import annotations
import copy, random, traceback
from . import harness as H


def _apply(b, edits):
    for e in edits: e.live(b)


def _case(args):
    tname, spec, idxs, kind = args
    H.deterministic_ids(1)
    out = {"topology": tname, "edits": None, "status": "ok", "diff": [], "kind": kind}
    try:
        b = H.build(spec)
        all_edits = H.numeric_edits(spec) + H.link_edits(spec)
        edits = [all_edits[i] for i in idxs]
        out["edits"] = [e.name for e in edits]
        before = H.snapshot(b.system)
        prev_tot = {k: H.view(v) for k, v in b.system.total_energy_footprint_sum_over_period.items()}
        spec2 = copy.deepcopy(spec)
        try:
            for e in edits:
                prev_tot = {k: H.view(v) for k, v in b.system.total_energy_footprint_sum_over_period.items()}
                e.live(b); e.spec(spec2)
        except Exception as ex:
            out["status"] = "edit-raised"; out["error"] = f"{type(ex).__name__}: {str(ex)[:200]}"
            # an edit refused / failing on the live system must also fail when building from scratch
            try:
                H.build(spec2); out["status"] = "edit-raised-but-fresh-build-succeeds"
            except Exception:
                out["status"] = "both-raise"
            return out
        try:
            fresh = H.build(spec2)
        except Exception as ex:
            out["status"] = "fresh-build-raises-but-edit-accepted"; out["error"] = f"{type(ex).__name__}: {str(ex)[:200]}"
            return out
        live = H.snapshot(b.system); ref = H.snapshot(fresh.system)
        d = H.diff(live, ref)
        if d:
            out["status"] = "stale"; out["diff"] = [f"{o}.{a}" for o, a in d]
        # bookkeeping: previous totals = totals just before the last edit
        pt = {k: H.view(v) for k, v in b.system.previous_total_energy_footprints_sum_over_period.items()}
        if set(pt) == set(prev_tot) and not all(H.view_equal(pt[k], prev_tot[k]) for k in pt):
            out["status"] = "previous-totals-wrong" if out["status"] == "ok" else out["status"]
        if kind == "undo" and out["status"] == "ok":
            pass
    except Exception as ex:
        out["status"] = "harness-error"; out["error"] = traceback.format_exc()[-600:]
    return out


def signature(r):
    return f"C01|{r['topology']}|{' ; '.join(r['edits'] or [])}|{r['status']}|{','.join(sorted(r['diff']))}"


def cases(tier, seed):
    rnd = random.Random(seed)
    T = H.topologies()
    items = []
    for tname, spec in T.items():
        n = len(H.numeric_edits(spec) + H.link_edits(spec))
        for i in range(n): items.append((tname, spec, (i,), "single"))
        pairs = [(i, j) for i in range(n) for j in range(n) if i != j]
        k = 60 if tier == "quick" else (len(pairs) if tname in ("single", "journey_shared_by_two_ups") else 600)
        for p in rnd.sample(pairs, min(k, len(pairs))): items.append((tname, spec, p, "pair"))
    return items


def run(tier, seed, procs=16):
    items = cases(tier, seed)
    res = H.run_parallel(_case, items, procs)
    viol, samples, nontrivial = [], [], set()
    for r in res:
        if r["status"] == "harness-error":
            raise RuntimeError("bounded harness error: " + r.get("error", ""))
        if r["status"] in ("ok", "both-raise"):
            nontrivial.add((r["topology"], tuple(r["edits"] or [])))
            if len(samples) < 3: samples.append({"topology": r["topology"], "edits": r["edits"], "result": r["status"]})
            continue
        viol.append({"signature": signature(r), "what": f"C01 on topology '{r['topology']}' after edits {r['edits']}: {r['status']} "
                     f"{r['diff'][:8]} {r.get('error', '')}", "input": {"topology": r["topology"], "edits": r["edits"]}})
    return {"evaluations": len(res), "distinct_nontrivial": len(nontrivial),
            "rule": "one case = (topology, sequence of 1 or 2 edits); live system after the edits vs a system built from the edited spec; "
                    "every calculated attribute compared hour by hour on physical values (rel 1e-9); non-trivial = the edit was accepted and changes at least the spec",
            "samples": samples, "violations": viol, "exhaustive": False,
            "bound": f"{len(H.topologies())} topologies, all single edits, {'sampled' if tier == 'quick' else 'all/sampled'} ordered pairs, seed {seed}"}
