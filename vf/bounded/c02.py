from . import inv


def run(tier, seed, procs=16):
    return inv.run_prop("C02", tier, seed, procs)
