"""C16 bounded stand-in: links stay consistent under every kind of edit.

After every operation of a (bounded) history of link edits on a real system:
  * forward links vs reverse look-ups: X.modeling_obj_containers (by identity) is exactly the set of objects that reference X
    through an attribute or a list; derived look-ups (server.jobs, journey.usage_patterns, network.usage_patterns, *.systems)
    agree with a from-scratch walk of the forward links;
  * list-valued links have the content python's list operation would give (mirror list);
  * self_delete is refused iff the object is still referenced;  an object never ends up in two systems.
"""
from __future__ import annotations
import copy, random, traceback
from . import harness as H
from .harness import ModelingUpdate


def raw(x): return getattr(x, "_value", x)


def forward_refs(objs):
    """{id(target): set(id(referrer))} from attributes and list attributes (identity based)"""
    from efootprint.abstract_modeling_classes.modeling_object import ModelingObject
    refs = {}
    for o in objs:
        for k, v in o.__dict__.items():
            if k == "contextual_modeling_obj_containers": continue
            if isinstance(v, list):
                for e in v:
                    if isinstance(raw(e), ModelingObject): refs.setdefault(id(raw(e)), set()).add(id(o))
            elif isinstance(v, ModelingObject):
                refs.setdefault(id(raw(v)), set()).add(id(o))
    return refs


def check_links(b, mirror, extra_objs=()):
    fails = []
    objs = [raw(o) for o in b.obj.values()] + [raw(o) for o in extra_objs]
    uniq = {id(o): o for o in objs}
    objs = list(uniq.values())
    refs = forward_refs(objs)
    name = lambda i: uniq[i].name if i in uniq else "?"
    for o in objs:
        try:
            got = {id(raw(c)) for c in o.modeling_obj_containers}
        except Exception as ex:
            fails.append(f"reverse-lookup-raises:{o.name}:{type(ex).__name__}"); continue
        want = refs.get(id(o), set())
        if got != want:
            fails.append(f"containers:{o.name}: reported {sorted(map(name, got))} referenced-by {sorted(map(name, want))}")
    # list contents
    for (oname, attr), want in mirror.items():
        got = [raw(x).name for x in getattr(b[oname], attr)]
        if got != want: fails.append(f"list-content:{oname}.{attr}: {got} != {want}")
        lst = getattr(b[oname], attr)
        if getattr(lst, "modeling_obj_container", None) is None: fails.append(f"live-list-detached:{oname}.{attr}")
    # systems: reachable from a system's usage patterns  <=> systems == [that system]
    systems = [o for o in objs if type(o).__name__ == "System"]
    for sysm in systems:
        reach = {id(raw(x)) for x in sysm.all_linked_objects}
        for o in objs:
            if type(o).__name__ == "System": continue
            try:
                ss = [raw(x) for x in o.systems]
            except Exception as ex:
                fails.append(f"systems-raises:{o.name}:{type(ex).__name__}:{str(ex)[:60]}"); continue
            if len({id(s) for s in ss}) > 1: fails.append(f"object-in-two-systems:{o.name}")
            if (id(o) in reach) != any(s is sysm for s in ss): fails.append(f"systems:{o.name}: reachable={id(o) in reach} reports {[s.name for s in ss]}")
    # derived look-ups
    for o in objs:
        t = type(o).__name__
        if t == "Server":
            want = sorted(j.name for j in objs if type(j).__name__ == "Job" and raw(j.server) is o)
            if sorted(raw(j).name for j in o.jobs) != want: fails.append(f"server.jobs:{o.name}")
        if t == "UsageJourney":
            want = sorted(u_.name for u_ in objs if type(u_).__name__ == "UsagePattern" and raw(u_.usage_journey) is o)
            if sorted(raw(x).name for x in o.usage_patterns) != want: fails.append(f"journey.usage_patterns:{o.name}")
        if t == "Network":
            want = sorted(u_.name for u_ in objs if type(u_).__name__ == "UsagePattern" and raw(u_.network) is o)
            if sorted(raw(x).name for x in o.usage_patterns) != want: fails.append(f"network.usage_patterns:{o.name}")
    return fails


def _held_elsewhere(b, st, j):
    """the element for job j as another step's list holds it (elements of different lists compare equal when they stand for one object)"""
    for st2 in b.spec["steps"]:
        if st2 == st: continue
        for x in b[st2].jobs:
            if raw(x) is raw(b[j]): return x
    return b[j]


def ops_for(spec, rnd):
    """the operation alphabet: (name, live(b), mirror(m), kind)"""
    O = []
    steps, jobs, journeys, ups = list(spec["steps"]), list(spec["jobs"]), list(spec["journeys"]), list(spec["ups"])
    def L(oname, attr): return lambda b: getattr(b[oname], attr)
    for st in steps:
        key = (st, "jobs")
        for j in jobs:
            O.append((f"{st}.jobs.append({j})", lambda b, st=st, j=j: b[st].jobs.append(b[j]), lambda m, key=key, j=j: m[key].append(j), "append"))
            O.append((f"{st}.jobs.insert(0,{j})", lambda b, st=st, j=j: b[st].jobs.insert(0, b[j]), lambda m, key=key, j=j: m[key].insert(0, j), "insert"))
            O.append((f"{st}.jobs.extend([{j},{j}])", lambda b, st=st, j=j: b[st].jobs.extend([b[j], b[j]]), lambda m, key=key, j=j: m[key].extend([j, j]), "extend-duplicate"))
            O.append((f"{st}.jobs+=[{j}]", lambda b, st=st, j=j: b[st].__setattr__("jobs", b[st].jobs.__iadd__([b[j]])), lambda m, key=key, j=j: m[key].extend([j]), "iadd"))
            O.append((f"{st}.jobs=[{j}]", lambda b, st=st, j=j: setattr(b[st], "jobs", [b[j]]), lambda m, key=key, j=j: m.__setitem__(key, [j]), "assign-list",
                      lambda b, st=st, j=j: [b[st].jobs, [b[j]]]))
            O.append((f"{st}.jobs[0]={j}", lambda b, st=st, j=j: b[st].jobs.__setitem__(0, b[j]), lambda m, key=key, j=j: m[key].__setitem__(0, j), "setitem"))
            O.append((f"{st}.jobs.remove({j})", lambda b, st=st, j=j: b[st].jobs.remove(b[j]), lambda m, key=key, j=j: m[key].remove(j), "remove-object"))
            if len(steps) > 1:
                O.append((f"{st}.jobs.remove({j} as held by another step)", lambda b, st=st, j=j: b[st].jobs.remove(_held_elsewhere(b, st, j)),
                          lambda m, key=key, j=j: m[key].remove(j), "remove-element-of-another-list"))
        O.append((f"{st}.jobs.pop()", lambda b, st=st: b[st].jobs.pop(), lambda m, key=key: m[key].pop(), "pop"))
        O.append((f"{st}.jobs.pop(0)", lambda b, st=st: b[st].jobs.pop(0), lambda m, key=key: m[key].pop(0), "pop"))
        O.append((f"del {st}.jobs[0]", lambda b, st=st: b[st].jobs.__delitem__(0), lambda m, key=key: m[key].__delitem__(0), "del"))
        O.append((f"{st}.jobs.clear()", lambda b, st=st: b[st].jobs.clear(), lambda m, key=key: m[key].clear(), "clear"))
        O.append((f"{st}.jobs+=[]", lambda b, st=st: b[st].__setattr__("jobs", b[st].jobs.__iadd__([])), lambda m, key=key: None, "noop"))
        O.append((f"{st}.jobs.extend([])", lambda b, st=st: b[st].jobs.extend([]), lambda m, key=key: None, "noop"))
        O.append((f"{st}.jobs*=1", lambda b, st=st: b[st].__setattr__("jobs", b[st].jobs.__imul__(1)), lambda m, key=key: None, "noop"))
        O.append((f"{st}.jobs*=2", lambda b, st=st: b[st].__setattr__("jobs", b[st].jobs.__imul__(2)), lambda m, key=key: m.__setitem__(key, m[key] * 2), "imul"))
        O.append((f"{st}.jobs={st}.jobs[:1]", lambda b, st=st: setattr(b[st], "jobs", list(b[st].jobs[:1])), lambda m, key=key: m.__setitem__(key, m[key][:1]), "slice"))
        O.append((f"{st}.jobs=same", lambda b, st=st: setattr(b[st], "jobs", list(b[st].jobs)), lambda m, key=key: None, "noop"))
        # same length, only objects already linked: a permutation, and one object dropped for a repeat of another
        O.append((f"{st}.jobs=reversed", lambda b, st=st: setattr(b[st], "jobs", list(reversed(list(b[st].jobs)))),
                  lambda m, key=key: m.__setitem__(key, list(reversed(m[key]))), "assign-permutation"))
        O.append((f"{st}.jobs=[first]*len", lambda b, st=st: setattr(b[st], "jobs", [list(b[st].jobs)[0]] * len(b[st].jobs)) if len(b[st].jobs) else None,
                  lambda m, key=key: m.__setitem__(key, [m[key][0]] * len(m[key])) if m[key] else None, "assign-repeat"))
    for uj in journeys:
        key = (uj, "uj_steps")
        for st in steps:
            O.append((f"{uj}.uj_steps.append({st})", lambda b, uj=uj, st=st: b[uj].uj_steps.append(b[st]), lambda m, key=key, st=st: m[key].append(st), "append"))
            O.append((f"{uj}.uj_steps=[{st}]", lambda b, uj=uj, st=st: setattr(b[uj], "uj_steps", [b[st]]), lambda m, key=key, st=st: m.__setitem__(key, [st]), "assign-list"))
        O.append((f"{uj}.uj_steps.pop()", lambda b, uj=uj: b[uj].uj_steps.pop(), lambda m, key=key: m[key].pop(), "pop"))
        O.append((f"{uj}.uj_steps=reversed", lambda b, uj=uj: setattr(b[uj], "uj_steps", list(reversed(list(b[uj].uj_steps)))),
                  lambda m, key=key: m.__setitem__(key, list(reversed(m[key]))), "assign-permutation"))
        O.append((f"{uj}.uj_steps=[first]*len", lambda b, uj=uj: setattr(b[uj], "uj_steps", [list(b[uj].uj_steps)[0]] * len(b[uj].uj_steps)),
                  lambda m, key=key: m.__setitem__(key, [m[key][0]] * len(m[key])), "assign-repeat"))
    for up in ups:
        for uj in journeys:
            O.append((f"{up}.usage_journey={uj}", lambda b, up=up, uj=uj: setattr(b[up], "usage_journey", b[uj]), lambda m: None, "assign-object",
                      lambda b, up=up, uj=uj: [b[up].usage_journey, b[uj]]))
        for n in spec["networks"]:
            O.append((f"{up}.network={n}", lambda b, up=up, n=n: setattr(b[up], "network", b[n]), lambda m: None, "assign-object",
                      lambda b, up=up, n=n: [b[up].network, b[n]]))
        # the object already linked is assigned again (changes nothing), typically followed by a real re-assignment
        O.append((f"{up}.network=same", lambda b, up=up: setattr(b[up], "network", raw(b[up].network)), lambda m: None, "same-object"))
        O.append((f"{up}.usage_journey=same", lambda b, up=up: setattr(b[up], "usage_journey", raw(b[up].usage_journey)), lambda m: None, "same-object"))
        key = (up, "devices")
        for d in spec["devices"]:
            O.append((f"{up}.devices.append({d})", lambda b, up=up, d=d: b[up].devices.append(b[d]), lambda m, key=key, d=d: m[key].append(d), "append"))
    for j in jobs:
        for sv in spec["servers"]:
            O.append((f"{j}.server={sv}", lambda b, j=j, sv=sv: setattr(b[j], "server", b[sv]), lambda m: None, "assign-object",
                      lambda b, j=j, sv=sv: [b[j].server, b[sv]]))
        O.append((f"{j}.server=same", lambda b, j=j: setattr(b[j], "server", raw(b[j].server)), lambda m: None, "same-object"))
    return O


def mirror_of(spec):
    m = {}
    for st, d in spec["steps"].items(): m[(st, "jobs")] = list(d["jobs"])
    for uj, d in spec["journeys"].items(): m[(uj, "uj_steps")] = list(d["steps"])
    for up, d in spec["ups"].items(): m[(up, "devices")] = list(d["devices"])
    m[("system", "usage_patterns")] = list(spec["system"]["ups"])
    return m


def _history(args):
    tname, spec, seq_idx, seed = args[:4]
    grouped = len(args) > 4 and args[4]
    H.deterministic_ids(6)
    out = {"topology": tname, "ops": [], "status": "ok", "fails": [], "kinds": []}
    try:
        b = H.build(spec)
        ops = ops_for(spec, None)
        mir = {k: [spec_name for spec_name in v] for k, v in mirror_of(spec).items()}
        namemir = lambda: {k: [b[x].name for x in v] for k, v in mir.items()}
        f0 = check_links(b, namemir())
        if f0: out["status"] = "initial-state-inconsistent"; out["fails"] = f0; return out
        if grouped:
            sel = [ops[i] for i in seq_idx]
            out["ops"] = ["GROUPED: " + " + ".join(o[0] for o in sel)]; out["kinds"] = ["grouped"] + [o[3] for o in sel]
            for o in sel: o[2](mir)
            try:
                H.ModelingUpdate([o[4](b) for o in sel])
            except Exception as ex:
                if H.is_float_cancellation_rejection(ex): out["status"] = "D3"; return out
                out["status"] = "operation-raises"; out["fails"] = [f"{type(ex).__name__}: {str(ex)[:120]}"]; return out
            f = check_links(b, namemir())
            if f: out["status"] = "inconsistent"; out["fails"] = f
            return out
        for i in seq_idx:
            name, live, mfn, kind = ops[i][:4]
            out["ops"].append(name); out["kinds"].append(kind)
            m2 = copy.deepcopy(mir)
            py_exc = None
            try: mfn(m2)
            except Exception as ex: py_exc = type(ex).__name__
            try:
                live(b)
                if py_exc: out["status"] = "python-list-would-raise-but-accepted"; out["fails"] = [py_exc]; return out
                mir = m2
            except Exception as ex:
                if py_exc in ("IndexError", "ValueError") and type(ex).__name__ in ("IndexError", "ValueError"):
                    pass   # both refuse (empty pop, remove of absent element): state must be unchanged -> checked below
                elif H.is_float_cancellation_rejection(ex):
                    out["status"] = "D3"; return out
                else:
                    out["status"] = "operation-raises"; out["fails"] = [f"{type(ex).__name__}: {str(ex)[:120]}"]; return out
            f = check_links(b, namemir())
            if f: out["status"] = "inconsistent"; out["fails"] = f; return out
        # deletion guard on every job
        for j in spec["jobs"]:
            o = b[j]
            referenced = bool(forward_refs([raw(x) for x in b.obj.values()]).get(id(raw(o))))
            if referenced:
                try:
                    o.self_delete(); out["status"] = "deleted-while-referenced"; out["fails"] = [j]; return out
                except PermissionError: pass
                # a refused deletion changes nothing: the object keeps every link it held
                f = check_links(b, namemir())
                if f: out["status"] = "inconsistent-after-a-refused-deletion"; out["fails"] = f; out["ops"] = out["ops"] + [f"{j}.self_delete() refused"]; return out
    except Exception:
        out["status"] = "harness-error"; out["error"] = traceback.format_exc()[-700:]
    return out


def _two_systems(args):
    tname, = args
    H.deterministic_ids(6)
    out = {"topology": "two-systems:" + tname, "ops": [], "status": "ok", "fails": [], "kinds": ["two-systems"]}
    try:
        T = H.topologies()
        a = H.build(T["single"]); b2 = H.build(T["single"])
        tries = {"network": lambda: setattr(a["up0"], "network", b2["net0"]), "job": lambda: a["step0"].jobs.append(b2["job0"]),
                 "journey": lambda: setattr(a["up0"], "usage_journey", b2["uj0"]), "server": lambda: setattr(a["job0"], "server", b2["srv0"])}
        out["ops"] = [tname]
        try:
            tries[tname]()
        except Exception as ex:
            out["status"] = "ok"; return out      # refused: fine
        moved = {"network": b2["net0"], "job": b2["job0"], "journey": b2["uj0"], "server": b2["srv0"]}[tname]
        if len({id(raw(s)) for s in moved.systems}) > 1: out["status"] = "object-in-two-systems"; out["fails"] = [tname]
    except Exception:
        out["status"] = "harness-error"; out["error"] = traceback.format_exc()[-700:]
    return out


def _delete_owner(args):
    """an owner holding the same object twice in a list (or several objects) is deleted: every forward link it held is gone afterwards,
    and what it alone referenced can be deleted in turn"""
    kind, = args
    H.deterministic_ids(6)
    out = {"topology": "delete-owner:" + kind, "ops": [kind], "status": "ok", "fails": [], "kinds": ["delete-owner"]}
    try:
        from efootprint.core.usage.usage_journey import UsageJourney
        from efootprint.core.usage.usage_journey_step import UsageJourneyStep
        from efootprint.core.usage.job import Job
        T = H.topologies()
        b = H.build(T["two_independent_chains"])
        spec = b.spec
        namemir = {k: [b[x].name for x in v] for k, v in mirror_of(spec).items()}
        orphan = None
        if kind == "journey-with-repeated-step":
            owner = UsageJourney("draft journey", uj_steps=[b["step0"], b["step0"], b["step1"]])
        elif kind == "journey-with-distinct-steps":
            owner = UsageJourney("draft journey", uj_steps=[b["step0"], b["step1"]])
        elif kind == "step-with-job-appended-twice":
            orphan = Job("poll", server=b["srv0"], **{k: v for k, v in Job.default_values().items()})
            owner = UsageJourneyStep("draft step", user_time_spent=Q_((1, "min")), jobs=[orphan]); owner.jobs.append(orphan)
        elif kind == "step-with-repeated-job-at-construction":
            orphan = Job("poll", server=b["srv0"], **{k: v for k, v in Job.default_values().items()})
            owner = UsageJourneyStep("draft step", user_time_spent=Q_((1, "min")), jobs=[orphan, b["job0"], orphan])
        else:
            raise KeyError(kind)
        owner.self_delete()
        f = check_links(b, namemir, extra_objs=[orphan] if orphan is not None else ())
        if f: out["status"] = "inconsistent"; out["fails"] = f; return out
        if orphan is not None:
            try:
                orphan.self_delete()
            except PermissionError as ex:
                out["status"] = "unreferenced-object-cannot-be-deleted"; out["fails"] = [str(ex)[:120]]; return out
            f = check_links(b, namemir)
            if f: out["status"] = "inconsistent"; out["fails"] = f
    except Exception:
        out["status"] = "harness-error"; out["error"] = traceback.format_exc()[-700:]
    return out


def _refused_system(args):
    """creating a second system around an object that already belongs to a system is refused and leaves no trace"""
    shared, = args
    H.deterministic_ids(6)
    out = {"topology": "refused-system:" + shared, "ops": [shared], "status": "ok", "fails": [], "kinds": ["refused-system"]}
    try:
        from efootprint.core.system import System
        T = H.topologies()
        a = H.build(T["single"])
        spec2 = copy.deepcopy(T["single"])
        b2 = H.build(spec2, compute=False)
        # B's usage pattern is constructed around one object of system A (construction recomputes nothing)
        from efootprint.core.usage.usage_pattern import UsagePattern
        parts = {"journey": b2["uj0"], "device": b2["dev0"], "network": b2["net0"], "country": b2["c0"]}
        parts[shared] = {"journey": a["uj0"], "device": a["dev0"], "network": a["net0"], "country": a["c0"]}[shared]
        up_b = UsagePattern("up B", parts["journey"], [parts["device"]], parts["network"], parts["country"],
                            H.SourceHourlyValues(b2["up0"].hourly_usage_journey_starts.value.copy()))
        b2.obj["upB"] = up_b
        mir_a = {k: [a[x].name for x in v] for k, v in mirror_of(a.spec).items()}
        try:
            System("system B", [up_b])
        except Exception:
            pass
        else:
            out["status"] = "ok"; return out          # accepted (shared countries / devices may be legal): nothing to check here
        f = check_links(a, mir_a, extra_objs=[raw(o) for o in b2.obj.values()])
        if f: out["status"] = "inconsistent"; out["fails"] = f; return out
        for o in list(a.obj.values()) + list(b2.obj.values()):
            o = raw(o)
            if type(o).__name__ == "System": continue
            names = sorted(raw(s).name for s in o.systems)
            if "system B" in names: out["status"] = "refused-system-still-registered"; out["fails"].append(f"{o.name}.systems={names}")
    except Exception:
        out["status"] = "harness-error"; out["error"] = traceback.format_exc()[-700:]
    return out


def Q_(pair): return H.Q(pair)


def classify(r):
    ks = r["kinds"]
    last = ks[-1] if ks else ""
    if r["status"] == "D3": return "D3"
    if "two-systems" in ks and r["status"] == "object-in-two-systems": return "D13"
    if last in ("noop", "remove-object") or "noop" in ks or "remove-object" in ks:
        if r["status"] in ("inconsistent", "operation-raises"): return "D11"
    if r["status"] == "operation-raises" and any("negative cumulative" in f or "broadcast" in f for f in r["fails"]): return "raises-in-recomputation"
    return f"C16|{r['topology']}|{' ; '.join(r['ops'])}|{r['status']}|{';'.join(r['fails'])[:300]}"


def run(tier, seed, procs=16):
    rnd = random.Random(seed)
    T = H.topologies()
    items = []
    for tname in ("single", "two_journeys_sharing_job", "two_independent_chains", "jobless_journey"):
        spec = T[tname]
        n = len(ops_for(spec, None))
        items += [(tname, spec, (i,), seed) for i in range(n)]
        npairs = 150 if tier == "quick" else 1200
        for _ in range(npairs):
            items.append((tname, spec, tuple(rnd.randrange(n) for _ in range(rnd.choice((2, 2, 3)))), seed))
        ops = ops_for(spec, None)
        # grouped updates: every pair of object / list assignments that touch different slots, in one ModelingUpdate
        ch = [i for i, o in enumerate(ops) if len(o) > 4]
        slot = lambda o: o[0].split("=")[0]
        gp = [(i, j) for i in ch for j in ch if i != j and slot(ops[i]) != slot(ops[j])]
        for p in (gp if tier == "thorough" else rnd.sample(gp, min(60, len(gp)))):
            items.append((tname, spec, p, seed, True))
    # systematic: every ordered pair of operations on the richest step and its journey (survivors after a removal, then a second edit)
    spec = T["two_independent_chains"]; ops = ops_for(spec, None)
    own = [i for i, o in enumerate(ops) if o[0].startswith(("step1.", "del step1.")) or "step1.jobs=step1" in o[0]]
    pairs = [(i, j) for i in own for j in own]
    if tier == "quick": pairs = [p for k, p in enumerate(pairs) if (k + seed) % 3 == 0]
    items += [("two_independent_chains", spec, p, seed) for p in pairs]
    for tname in ("two_independent_chains", "two_servers_repeated_job"):
        spec = T[tname]; ops = ops_for(spec, None)
        same = [i for i, o in enumerate(ops) if o[3] == "same-object"]
        for i in same:
            slot = ops[i][0].split("=")[0]
            for j, o in enumerate(ops):
                if o[3] == "assign-object" and o[0].split("=")[0] == slot: items.append((tname, spec, (i, j), seed))
    res = H.run_parallel(_history, items, procs)
    res += [_two_systems((t,)) for t in ("network", "job", "journey", "server")]
    res += [_delete_owner((k,)) for k in ("journey-with-repeated-step", "journey-with-distinct-steps", "step-with-job-appended-twice", "step-with-repeated-job-at-construction")]
    res += [_refused_system((k,)) for k in ("network", "journey", "device", "country")]
    viol, samples, nontrivial = [], [], set()
    for r in res:
        if r["status"] == "harness-error": raise RuntimeError("bounded harness error: " + r.get("error", ""))
        nontrivial.add((r["topology"], tuple(r["ops"])))
        if len(samples) < 3: samples.append({"topology": r["topology"], "history": r["ops"], "result": r["status"]})
        if r["status"] == "ok": continue
        sig = classify(r)
        if sig == "raises-in-recomputation": continue     # the edit is not accepted (recomputation fails): outside C16, covered by C15
        viol.append({"signature": sig, "what": f"C16 on '{r['topology']}' after {r['ops']}: {r['status']} {r['fails'][:3]}", "input": {"topology": r["topology"], "history": r["ops"]}})
    return {"evaluations": len(res), "distinct_nontrivial": len(nontrivial),
            "rule": "one case = (topology, history of 1-3 link/list operations from the alphabet append/insert/extend/+=/*=/pop/remove/del/item assignment/clear/slice/assign list/assign object, "
                    "with present, absent, duplicate and no-op arguments); after every operation forward links are compared with every reverse look-up, list contents with a python mirror list",
            "samples": samples, "violations": viol, "exhaustive": False,
            "bound": f"4 topologies, all single operations, {150 if tier == 'quick' else 1200} random histories of length 2-3 each (seed {seed}), 4 cross-system links, 4 owner deletions (repeated / distinct members), 4 refused system creations"}
