"""C11 bounded stand-in: local time -> UTC conversion against an oracle built from the pytz transition tables
(no pandas time-zone code): total preserved, strictly increasing unique timestamps, every value at local time minus the
offset in force, repeated / skipped hours merged."""
from __future__ import annotations
import bisect, random, traceback
from datetime import datetime, timedelta
import pytz
from . import harness as H
from .harness import u, ExplainableHourlyQuantities, SourceObject, create_hourly_usage_df_from_list


def to_utc_oracle(tz, t):
    """UTC instant (naive) of the naive local time t: existing time -> t - offset (first occurrence when ambiguous, i.e. the
    DST side); nonexistent time (inside a forward gap) -> the instant at which the gap ends"""
    if not hasattr(tz, "_utc_transition_times"):
        off = tz.utcoffset(t) or timedelta(0)
        return t - off, None
    tt, ti = tz._utc_transition_times, tz._transition_info
    cands = set()
    for k in range(len(tt)):
        off = ti[k][0]
        lo = tt[k]
        hi = tt[k + 1] if k + 1 < len(tt) else datetime.max
        inst = t - off
        if lo <= inst < hi: cands.add(inst)
    if cands: return min(cands), None          # ambiguous -> first occurrence
    # nonexistent: find the transition whose gap contains t -> (instant at which the gap ends, length of the gap)
    for k in range(1, len(tt)):
        before, after = ti[k - 1][0], ti[k][0]
        if tt[k] + before <= t < tt[k] + after: return tt[k], after - before
    raise ValueError(f"no instant for {t} in {tz}")


def _case(args):
    zone, start, n, seed = args
    out = {"case": f"{zone}|{start}|{n}", "status": "ok", "fails": []}
    try:
        rnd = random.Random(seed)
        tz = pytz.timezone(zone)
        valsl = [float(rnd.choice([0, 1, 2, 5, 0.5, 113])) for _ in range(n)]
        ehq = ExplainableHourlyQuantities(create_hourly_usage_df_from_list(valsl, start), "local")
        r = ehq.convert_to_utc(SourceObject(tz, label="tz"))
        idx = [t.tz_convert("UTC").tz_localize(None).to_pydatetime() for t in r.value.index]
        got = dict(zip(idx, [float(x) for x in r.value["value"].values._data]))
        f = []
        if any(b <= a for a, b in zip(idx, idx[1:])): f.append("not-strictly-increasing")
        if len(set(idx)) != len(idx): f.append("duplicate-timestamps")
        if not H.close(sum(got.values()), sum(valsl), 1e-9, 1e-9): f.append("total-not-preserved")
        exp, floating, windows = {}, 0.0, []
        for i, v in enumerate(valsl):
            inst, gap = to_utc_oracle(tz, start + timedelta(hours=i))
            if gap is None: exp[inst] = exp.get(inst, 0.0) + v
            else:
                # a skipped local hour has no offset in force: it must be merged into an hour next to the gap (within one gap length), not dropped
                floating += v; windows.append((inst - gap, inst + gap + timedelta(hours=1)))
        missing = [k for k in exp if k not in got]
        if missing: f.append(f"placement-index-missing:{missing[:3]}")
        extra = 0.0
        for k, gv in got.items():
            d = gv - exp.get(k, 0.0)
            if d < -1e-9: f.append(f"placement-value-lost-at:{k}"); break
            if d > 1e-9 or k not in exp:
                if not any(lo <= k <= hi for lo, hi in windows): f.append(f"placement-unexpected-at:{k}"); break
                extra += d
        if not f and not H.close(extra, floating, 1e-9, 1e-9): f.append("skipped-hours-not-merged")
        out["fails"] = f
        if f: out["status"] = "fails"
    except Exception:
        out["status"] = "harness-error"; out["error"] = traceback.format_exc()[-700:]
    return out


def _combine_case(args):
    """usage of two zones combined on the common UTC time line: the sum of two converted series holds, at every UTC timestamp,
    the sum of what each holds there (each conversion is checked on its own by _case)"""
    za, zb, start, n, seed = args
    out = {"case": f"combine|{za}+{zb}|{start}|{n}", "status": "ok", "fails": []}
    try:
        rnd = random.Random(seed)
        conv = []
        for z in (za, zb):
            vals = [float(rnd.choice([0, 1, 2, 5, 0.5, 113])) for _ in range(n)]
            conv.append(ExplainableHourlyQuantities(create_hourly_usage_df_from_list(vals, start), "local").convert_to_utc(SourceObject(pytz.timezone(z), label="tz")))
        def as_dict(r):
            idx = [t.tz_convert("UTC").tz_localize(None).to_pydatetime() for t in r.value.index]
            return dict(zip(idx, [float(x) for x in r.value["value"].values._data]))
        da, db = as_dict(conv[0]), as_dict(conv[1])
        want = dict(da)
        for k, v in db.items(): want[k] = want.get(k, 0.0) + v
        f = []
        for label, r in (("a+b", conv[0] + conv[1]), ("b+a", conv[1] + conv[0]), ("sum([a,b])", sum([conv[0], conv[1]]))):
            got = as_dict(r)
            if set(got) != set(want): f.append(f"{label}:timestamps-differ:{sorted(set(got) ^ set(want))[:2]}"); continue
            bad = [k for k in want if not H.close(got[k], want[k], 1e-9, 1e-9)]
            if bad: f.append(f"{label}:value-at-wrong-timestamp:{len(bad)} hours, first {min(bad)}")
        out["fails"] = f
        if f: out["status"] = "fails"
    except Exception:
        out["status"] = "harness-error"; out["error"] = traceback.format_exc()[-700:]
    return out


def _oracle_utc_series(tz, local_index, values, not_before=None):
    """{utc instant (naive): value} of a local hourly series by the pytz-table oracle; skipped local hours are reported apart"""
    exp, floating = {}, 0.0
    for t, v in zip(local_index, values):
        inst, gap = to_utc_oracle(tz, t)
        if not_before is not None and inst < not_before: continue
        if gap is None: exp[inst] = exp.get(inst, 0.0) + v
        else: floating += v
    return exp, floating


def _utc_of(up):
    r = up.utc_hourly_usage_journey_starts
    idx = [t.tz_convert("UTC").tz_localize(None).to_pydatetime() for t in r.value.index]
    return dict(zip(idx, [float(x) for x in r.value["value"].values._data]))


def _system_case(args):
    """the conversion as the model uses it: the UTC series of every usage pattern of a computed system, as built, after the pattern is
    moved to a country in another zone, and (daylight-saving topologies) while a simulation dated at each hour is switched on"""
    tname, mode, arg = args
    out = {"case": f"system|{tname}|{mode}|{arg}", "status": "ok", "fails": []}
    try:
        from . import sim as SIM
        H.deterministic_ids(12)
        T = H.topologies(); spec = T[tname]
        b = H.build(spec)
        f = []
        def check(upname, tzname, label, not_before=None):
            up = b[upname]; tz = pytz.timezone(H.TZ[tzname])
            loc = up.hourly_usage_journey_starts.value
            exp, floating = _oracle_utc_series(tz, [t.to_pydatetime() for t in loc.index], [float(x) for x in loc["value"].values._data], not_before)
            got = _utc_of(up)
            if not H.close(sum(got.values()), sum(exp.values()) + floating, 1e-9, 1e-9) and not_before is None: f.append(f"{label}:total-not-preserved:{upname}")
            missing = [k for k in exp if k not in got or got[k] < exp[k] - 1e-9]
            if missing: f.append(f"{label}:traffic-missing-at:{upname}:{sorted(missing)[:2]}")
            early = [k for k in got if not_before is not None and k < not_before]
            if early: f.append(f"{label}:traffic-before-the-simulation-date:{upname}:{sorted(early)[:2]}")
            extra = sum(v - exp.get(k, 0.0) for k, v in got.items())
            if not H.close(extra, floating, 1e-9, 1e-9): f.append(f"{label}:traffic-invented-or-lost:{upname}:{extra - floating:+.3f}")
        if mode == "as-built":
            for upname, d in spec["ups"].items():
                if upname in spec["system"]["ups"]: check(upname, spec["countries"][d["country"]]["tz"], "as-built")
        elif mode == "country-switch":
            upname, cname = arg
            b[upname].country = b[cname]
            check(upname, spec["countries"][cname]["tz"], f"after {upname}.country->{cname}")
        elif mode == "simulation":
            dname = arg
            date = SIM.dates_for(b).get(dname)
            if date is None: out["status"] = "skip"; return out
            mk, _ = SIM.change_lists(b, spec)["up.devices+=dev"]
            simu = H.ModelingUpdate(mk(b), date)
            simu.set_updated_values()
            nb = date.astimezone(pytz.utc).replace(tzinfo=None)
            for upname, d in spec["ups"].items():
                if upname in spec["system"]["ups"]: check(upname, spec["countries"][d["country"]]["tz"], f"simulated from {dname}", not_before=nb)
            simu.reset_values()
        out["fails"] = f
        if f: out["status"] = "fails"
    except Exception as ex:
        if H.is_float_cancellation_rejection(ex): out["status"] = "ok"
        else: out["status"] = "harness-error"; out["error"] = traceback.format_exc()[-700:]
    return out


# the zone each catalogued country lives in (independent of the library: general geography; compared by UTC offsets, so aliases are fine)
EXPECTED_ZONE = {"Algeria": "Africa/Algiers", "Austria": "Europe/Vienna", "Belgium": "Europe/Brussels", "Finland": "Europe/Helsinki", "France": "Europe/Paris",
                 "Germany": "Europe/Berlin", "Hungary": "Europe/Budapest", "Italy": "Europe/Rome", "Malaysia": "Asia/Kuala_Lumpur", "Morocco": "Africa/Casablanca",
                 "Norway": "Europe/Oslo", "Poland": "Europe/Warsaw", "Romania": "Europe/Bucharest", "Senegal": "Africa/Dakar", "Tunisia": "Africa/Tunis",
                 "United Kingdom": "Europe/London"}


def _catalogue_case(_):
    """the predefined countries convert local time with the offsets of the country they name"""
    out = {"case": "country-catalogue", "status": "ok", "fails": [], "unknown": []}
    try:
        import inspect
        from efootprint.constants.countries import Countries
        probes = [datetime(2025, m, 15, 12) for m in (1, 4, 7, 11)] + [datetime(2024, 3, 31, 12), datetime(2024, 10, 27, 12)]
        for n, v in inspect.getmembers(Countries):
            if not (n.isupper() and callable(v)): continue
            c = v(); name = c.name
            if name not in EXPECTED_ZONE: out["unknown"].append(name); continue
            got, want = c.timezone.value, pytz.timezone(EXPECTED_ZONE[name])
            bad = [str(t) for t in probes if got.utcoffset(t) != want.utcoffset(t)]
            if bad: out["fails"].append(f"catalogue-zone-of-{name}: {getattr(got, 'zone', got)} differs from {EXPECTED_ZONE[name]} at {bad[:2]}")
        if out["fails"]: out["status"] = "fails"
    except Exception:
        out["status"] = "harness-error"; out["error"] = traceback.format_exc()[-700:]
    return out


def transitions_between(tz, lo, hi):
    if not hasattr(tz, "_utc_transition_times"): return []
    return [t for t in tz._utc_transition_times if lo <= t <= hi]


def run(tier, seed, procs=16):
    rnd = random.Random(seed)
    zones = ["Europe/Paris", "Asia/Kathmandu", "America/St_Johns", "Australia/Lord_Howe", "Pacific/Apia", "Antarctica/Troll", "Europe/London",
             "America/New_York", "Asia/Kolkata", "UTC", "Pacific/Chatham", "America/Sao_Paulo", "Africa/Casablanca", "Asia/Tehran", "Europe/Lisbon"]
    if tier == "thorough": zones = list(pytz.common_timezones)
    else: zones += rnd.sample(list(pytz.common_timezones), 25)
    items = []
    for z in zones:
        tz = pytz.timezone(z)
        trs = transitions_between(tz, datetime(2010, 1, 1), datetime(2030, 1, 1))
        picks = trs if tier == "thorough" else (rnd.sample(trs, min(4, len(trs))) if trs else [])
        for tr in picks:
            off = tz.utcoffset(tr + timedelta(days=2), is_dst=False) if hasattr(tz, "localize") else timedelta(0)
            local = (tr + (off or timedelta(0))).replace(minute=0, second=0, microsecond=0)
            for lead in (3, 30):
                items.append((z, local - timedelta(hours=lead), lead + 8, seed))
        items.append((z, datetime(2025, 6, 1), 24, seed))
        items.append((z, datetime(2025, 1, 1, 5), 7, seed))
    # periods longer than a year: two changes of each kind inside one series
    for z in ("Europe/Paris", "America/New_York", "Australia/Lord_Howe", "Africa/Casablanca") + (("America/Sao_Paulo", "Europe/London", "Pacific/Chatham", "Asia/Tehran") if tier == "thorough" else ()):
        items.append((z, datetime(2025, 3, 28), 24 * 368, seed)); items.append((z, datetime(2024, 10, 20, 7), 24 * 375, seed))
    res = H.run_parallel(_case, items, procs)
    # zones combined on one UTC time line: same offsets at both ends of the period but different change dates, identical calendars,
    # a zone without changes, fractional offsets; whole years and short windows
    pairs = [("Europe/Paris", "Africa/Casablanca"), ("America/New_York", "America/Havana"), ("Europe/Paris", "Europe/Berlin"), ("Europe/Paris", "Africa/Tunis"),
             ("Australia/Adelaide", "Asia/Kolkata"), ("America/St_Johns", "America/Sao_Paulo"), ("Europe/London", "Asia/Kathmandu"), ("UTC", "Pacific/Chatham")]
    citems = []
    for za, zb in pairs:
        for yr in (2024, 2025) if tier == "thorough" else (2024,):
            citems.append((za, zb, datetime(yr, 1, 1), 24 * (366 if yr == 2024 else 365), seed))
        citems.append((za, zb, datetime(2025, 3, 28), 96, seed)); citems.append((za, zb, datetime(2025, 10, 24), 96, seed))
    res += H.run_parallel(_combine_case, citems, procs)
    # the conversion inside computed systems
    T = H.topologies(); sitems = []
    for tname, spec in T.items():
        sitems.append((tname, "as-built", None))
        for upname, d in spec["ups"].items():
            if upname not in spec["system"]["ups"]: continue
            for cname in spec["countries"]:
                if cname != d["country"]: sitems.append((tname, "country-switch", (upname, cname)))
        if tname.startswith("dst_"):
            for k in range(0, 9): sitems.append((tname, "simulation", f"hour{k}" if k else "first"))
    res += [r for r in H.run_parallel(_system_case, sitems, procs) if r["status"] != "skip"]
    res.append(_catalogue_case(None))
    viol, samples, nontrivial = [], [], set()
    for r in res:
        if r["status"] == "harness-error": raise RuntimeError("bounded harness error: " + r.get("error", ""))
        nontrivial.add(r["case"])
        if len(samples) < 4: samples.append({"case": r["case"], "result": r["status"]})
        if r["status"] != "ok":
            zone = r["case"].split("|")[0]
            sig = f"C11|{r['case']}|{';'.join(r['fails'])[:150]}"
            viol.append({"signature": sig, "what": f"C11 {r['case']}: {r['fails'][:3]}", "input": {"case": r["case"]}})
    return {"evaluations": len(res), "distinct_nontrivial": len(nontrivial),
            "rule": "one case = (IANA zone, local start, length): a local hourly series straddling a UTC-offset transition of the zone (or an ordinary period); "
                    "result compared with an oracle computed from the pytz transition tables: strictly increasing unique UTC index, total preserved, every value at local time minus the offset in force, repeated/skipped hours merged",
            "samples": samples, "violations": viol, "exhaustive": tier == "thorough",
            "catalogue": "the 16 predefined countries use the UTC offsets of the country they name (independent table, compared at 6 instants)",
            "in_systems": "UTC series of every usage pattern of every topology as built, after moving the pattern to a country in another zone, and while a simulation dated at each hour around a daylight-saving change is switched on",
            "combined": "8 zone pairs (same end offsets / different change dates, identical calendars, no-DST, fractional offsets) over whole years and 96-hour windows: a+b, b+a and sum() vs the per-timestamp sum",
            "bound": f"{len(zones)} zones ({'all common IANA zones, every transition 2010-2030' if tier == 'thorough' else '15 fixed + 25 sampled, 4 sampled transitions each'}), series of 7 to 38 hours"}
