from . import rel


def run(tier, seed, procs=16):
    return rel.run_c18(tier, seed, procs)
