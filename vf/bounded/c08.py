"""C08 bounded stand-in: the calculation graph is consistent and complete.

GC   (consistency): every recorded dependency is listed on both ends, refers to values currently held by the model, no cycle.
COMP (completeness): perturb one input, diff every calculated attribute: each changed attribute lists that input among its
     transitive ancestors; the update order derived for the input lists each dependent once, after everything it depends on.
"""
from __future__ import annotations
import copy, signal, traceback
from . import harness as H
from .harness import Q
from .sim import change_lists, dates_for
from .harness import ModelingUpdate


class Timeout(Exception):
    pass


def _alarm(signum, frame): raise Timeout()


def attached_values(system):
    out = []
    handles = H.HANDLES.get(id(system), {})
    for obj in H.all_objects(system):
        obj = getattr(obj, "_value", obj)
        name = handles.get(id(obj), obj.name)
        for k, val in obj.__dict__.items():
            if k.startswith("previous_") or k.startswith("initial_"): continue
            if isinstance(val, dict) and hasattr(val, "modeling_obj_container"):
                for kk, v in val.items(): out.append((f"{name}.{k}[{getattr(kk, 'name', kk)}]", obj, k, v))
            elif hasattr(val, "direct_ancestors_with_id"):
                out.append((f"{name}.{k}", obj, k, val))
    return out


def held(v):
    c = v.modeling_obj_container
    if c is None: return False
    cur = c.__dict__.get(v.attr_name_in_mod_obj_container)
    if cur is v: return True
    if isinstance(cur, dict): return any(x is v for x in cur.values())
    return False


def sid(x):
    try: return x.id
    except Exception: return f"<detached:{getattr(x, 'label', '?')}>"


def check_gc(system):
    fails = []
    vals = attached_values(system)
    for name, obj, k, v in vals:
        if getattr(v, "modeling_obj_container", None) is None:
            fails.append(f"value-in-model-not-attached:{name}"); continue
        for a in v.direct_ancestors_with_id:
            if a.modeling_obj_container is None: fails.append(f"ancestor-detached:{name}<-{a.label}"); continue
            if not held(a): fails.append(f"ancestor-superseded:{name}<-{a.label}"); continue
            if v.id not in [sid(c) for c in a.direct_children_with_id]: fails.append(f"edge-missing-on-ancestor-side:{name}<-{a.id}")
        for c in v.direct_children_with_id:
            if c.modeling_obj_container is None: fails.append(f"child-detached:{name}->{c.label}"); continue
            if not held(c): fails.append(f"child-superseded:{name}->{c.label}"); continue
            if v.id not in [sid(a) for a in c.direct_ancestors_with_id]: fails.append(f"edge-missing-on-child-side:{name}->{c.id}")
    # acyclicity by id
    graph = {}
    for name, obj, k, v in vals:
        if v.modeling_obj_container is None: continue
        graph.setdefault(v.id, set()).update(sid(c) for c in v.direct_children_with_id if c.modeling_obj_container is not None)
    color = {}
    def dfs(n):
        stack = [(n, iter(graph.get(n, ())))]
        color[n] = 1
        while stack:
            node, it = stack[-1]
            for m in it:
                if color.get(m) == 1: return True
                if m not in color:
                    color[m] = 1; stack.append((m, iter(graph.get(m, ())))); break
            else:
                color[node] = 2; stack.pop()
        return False
    for n in list(graph):
        if n not in color and dfs(n): fails.append("cycle"); break
    return fails


def inputs_of(b):
    out = []
    for key, o in b.obj.items():
        o = getattr(o, "_value", o)
        if not hasattr(o, "calculated_attributes"): continue
        for k, v in o.__dict__.items():
            if k in o.calculated_attributes or k.startswith("previous_") or k.startswith("initial_"): continue
            if isinstance(v, H.ExplainableQuantity) and not isinstance(v, H.EmptyExplainableObject): out.append((key, k))
    return out


def check_chain(v):
    fails = []
    chain = v.attr_updates_chain
    ids = [sid(x) for x in chain]
    if len(ids) != len(set(ids)): fails.append("update-order-lists-a-dependent-twice")
    desc = {sid(d) for d in v.all_descendants_with_id}
    if set(ids) != desc - {v.id}:
        fails.append(f"update-order-misses-dependents:{sorted(desc - set(ids) - {v.id})[:3]}" if desc - set(ids) - {v.id} else "update-order-has-extra-elements")
    pos = {i: p for p, i in enumerate(ids)}
    for p, x in enumerate(chain):
        members = list(x.values()) if isinstance(x, dict) else [x]
        for m in members:
            for a in m.direct_ancestors_with_id:
                if sid(a) in pos and pos[sid(a)] > p: fails.append(f"update-order-before-its-dependency:{sid(x)}<{sid(a)}")
    return fails


def _case(args):
    tname, spec, mode, arg = args
    H.deterministic_ids(11)
    out = {"case": f"{tname}|{mode}|{arg}", "status": "ok", "fails": [], "shared": H.has_shared_job(spec)}
    signal.signal(signal.SIGALRM, _alarm); signal.setitimer(signal.ITIMER_REAL, 60)
    try:
        b = H.build(spec)
        if mode == "gc-built":
            out["fails"] = check_gc(b.system)
        elif mode == "gc-after-edit":
            eds = H.numeric_edits(spec) + H.link_edits(spec)
            out["case"] = f"{tname}|{mode}|{eds[arg].name}"
            eds[arg].live(b)
            out["shared"] = H.has_shared_job(b.spec) or out["shared"]
            s2 = copy.deepcopy(spec); eds[arg].spec(s2); out["shared"] = out["shared"] or H.has_shared_job(s2)
            out["fails"] = check_gc(b.system)
        elif mode == "gc-after-grouped-edit":
            eds = H.numeric_edits(spec)
            i, j = arg
            out["case"] = f"{tname}|{mode}|[{eds[i].name} , {eds[j].name}]"
            ModelingUpdate([eds[i].change(b), eds[j].change(b)])
            out["fails"] = check_gc(b.system)
        elif mode == "gc-after-simulation":
            cname, dname, toggles = arg
            date = dates_for(b).get(dname)
            if date is None: out["status"] = "skip"; return out
            try:
                sim = ModelingUpdate(change_lists(b, spec)[cname][0](b), date)
            except Exception as ex:
                if H.is_float_cancellation_rejection(ex): raise
                # the simulation could not be created: C05 / C06 territory; here only the graph left behind matters
                out["fails"] = [f"simulation-raises:{type(ex).__name__}"] + check_gc(b.system); out["status"] = "fails"; return out
            for t in toggles:
                (sim.set_updated_values if t == "S" else sim.reset_values)()
            if sim.updated_values_set: sim.reset_values()
            out["fails"] = check_gc(b.system)
        elif mode == "completeness":
            key, attr, how = arg
            v = getattr(b[key], attr)
            try: out["fails"] = check_chain(v)
            except Timeout: raise
            except Exception as ex: out["fails"] = [f"update-order-raises:{type(ex).__name__}:{str(ex)[:60]}"]
            before = H.snapshot(b.system)
            unit = v.value.units
            new = H.SourceValue((v.value.magnitude * 2 + 1) * unit)
            if how == "plus-65-min": new = H.SourceValue(v.value + 65 * H.u.min)
            try:
                setattr(b[key], attr, new)
            except Exception as ex:
                out["status"] = "skip-perturbation-raises"; return out
            # ground truth: a system built from the perturbed inputs
            sec = {"Storage": "storages", "Server": "servers", "Job": "jobs", "UsageJourneyStep": "steps", "Device": "devices", "Network": "networks", "Country": "countries"}[type(getattr(b[key], "_value", b[key])).__name__]
            s2 = copy.deepcopy(spec)
            skey = {"bandwidth_energy_intensity": "bei", "carbon_footprint_fabrication": "cff" if sec == "devices" else "carbon_footprint_fabrication",
                    "fraction_of_usage_time": "fraction"}.get(attr, attr)
            if sec == "countries" and attr == "average_carbon_intensity": skey = "aci"
            s2[sec][key][skey] = (float(new.value.magnitude), str(new.value.units))
            try:
                fresh = H.build(s2)
            except Exception:
                out["status"] = "skip-perturbation-raises"; return out
            changed = H.diff(before, H.snapshot(fresh.system))
            input_id = new.id
            vals = {n: val for n, o_, k_, val in attached_values(b.system)}
            for (oname, aname) in changed:
                objv = getattr(b[oname], aname) if oname in b.obj else None
                if objv is None: continue
                members = list(objv.values()) if isinstance(objv, dict) else [objv]
                anc = set()
                for m in members:
                    if isinstance(m, H.ExplainableObject):
                        try: anc |= {sid(a) for a in m.all_ancestors_with_id}
                        except Exception as ex: out["fails"].append(f"ancestor-walk-raises:{oname}.{aname}:{type(ex).__name__}"); anc.add(input_id)
                if input_id not in anc: out["fails"].append(f"input-not-an-ancestor-of:{oname}.{aname}")
        if out["fails"]: out["status"] = "fails"
    except Timeout:
        out["status"] = "non-terminating"
    except Exception as ex:
        if H.is_float_cancellation_rejection(ex): out["status"] = "D3"
        else: out["status"] = "harness-error"; out["error"] = traceback.format_exc()[-800:]
    finally:
        signal.setitimer(signal.ITIMER_REAL, 0)
    return out


def run(tier, seed, procs=16):
    T = H.topologies()
    items = []
    for tname, spec in T.items():
        items.append((tname, spec, "gc-built", None))
        n = len(H.numeric_edits(spec) + H.link_edits(spec))
        for i in (range(n) if tier == "thorough" else [i for i in range(n) if (i + seed) % 3 == 0]):
            items.append((tname, spec, "gc-after-edit", i))
        if tname in ("single", "two_independent_chains", "two_servers_repeated_job"):
            # one update carrying two numeric changes, in both orders (the merged update order must suit both)
            ne = H.numeric_edits(spec)
            pairs = [(i, j) for i in range(len(ne)) for j in range(len(ne)) if i != j and ne[i].name.split("=")[0] != ne[j].name.split("=")[0]]
            if tier == "quick": pairs = [p for k, p in enumerate(pairs) if (k + seed) % 4 == 0]
            for p in pairs: items.append((tname, spec, "gc-after-grouped-edit", p))
        for cname in change_lists(None, spec):
            for dname, tg in (("first", "SR"), ("interior", ""), ("interior", "SRSR")):
                items.append((tname, spec, "gc-after-simulation", (cname, dname, tg)))
        b = H.build(spec)
        for key, attr in inputs_of(b):
            if key in ("system",): continue
            items.append((tname, spec, "completeness", (key, attr, "times-2-plus-1")))
            if "time" in str(getattr(b[key], attr).value.dimensionality) and len(getattr(b[key], attr).value.dimensionality) == 1 and attr not in ("lifespan",):
                items.append((tname, spec, "completeness", (key, attr, "plus-65-min")))
    res = H.run_parallel(_case, items, procs)
    viol, samples, nontrivial = [], [], set()
    for r in res:
        if r["status"] == "harness-error": raise RuntimeError("bounded harness error: " + r.get("error", ""))
        if r["status"].startswith("skip"): continue
        nontrivial.add(r["case"])
        if len(samples) < 4: samples.append({"case": r["case"], "result": r["status"], "fails": r["fails"][:2]})
        if r["status"] == "ok": continue
        sig = f"C08|{r['case']}|{r['status']}|{';'.join(sorted(set(f.split(':')[0] for f in r['fails'])))}|{';'.join(sorted(r['fails']))[:200]}"
        if r["status"] == "D3": sig = "D3"
        elif r["shared"]: sig = "D1"
        viol.append({"signature": sig, "what": f"C08 {r['case']}: {r['status']} {r['fails'][:5]}", "input": {"case": r["case"]}})
    return {"evaluations": len(res), "distinct_nontrivial": len(nontrivial),
            "rule": "one case = (topology, state: as built | after one edit | after one update grouping two numeric changes | after a simulation and toggles) for graph consistency (both ends, held values only, acyclic), "
                    "or (topology, one quantity input perturbed) for completeness (every attribute that differs in a system rebuilt from the perturbed input has the input among its transitive ancestors; "
                    "the update order of the input lists each dependent once and after its dependencies)",
            "samples": samples, "violations": viol, "exhaustive": False,
            "bound": f"{len(T)} topologies; every quantity input perturbed once; {'every' if tier == 'thorough' else 'a third of the'} single edits; up to 6 change lists x 3 simulation/toggle patterns"}
