"""Ghost specification functions: recursive sums over symbolic lists, unfolded by explicitly instantiated hypotheses
(so that verification conditions stay quantifier free), and the 'maybe-vector' algebra (MV) in which the functional
specifications of the update functions are written (math level: no parents, no labels)."""
from __future__ import annotations
import itertools
import z3
from .sym import *
from .engine import Unsupported, SymRaise, TT

_gid = itertools.count()


def _canon(e):
    """canonical text of a term (native s-expression printer of the simplified term; the python pretty printer is ~20x slower)"""
    return z3.simplify(e).sexpr() if z3.is_expr(e) else str(e)


def _digest(txt):
    """ghost function names are digests of the canonical summand text (collision probability of sha1/64 bits: negligible)"""
    import hashlib
    return hashlib.sha1(txt.encode()).hexdigest()[:16]



class MV:
    """math-level value 'Empty or hourly series': is_empty (z3 Bool), vec (Vec, phys), dim"""
    def __init__(self, is_empty, vec: Vec, dim):
        self.is_empty = is_empty if z3.is_expr(is_empty) else z3.BoolVal(bool(is_empty))
        self.vec, self.dim = vec, dim

    def inidx(self, t): return z3.And(z3.Not(self.is_empty), self.vec.inidx(t))
    def v0(self, t): return z3.If(self.inidx(t), self.vec.val(t), z3.RealVal(0))
    @property
    def total0(self):
        return None if self.vec.total is None else z3.If(self.is_empty, z3.RealVal(0), self.vec.total)


def mv_of(x) -> MV:
    """view of a code-level value (Expl / ExplU) as MV"""
    if isinstance(x, MV): return x
    if isinstance(x, ExplU):
        d = x.nonempty.value
        return MV(x.is_empty, d.vec, d.unit.dim)
    if isinstance(x, Expl):
        if x.kind == "empty": return MV(True, EMPTY_VEC, None)
        if x.kind == "ehq": return MV(False, x.value.vec, x.value.unit.dim)
    raise Unsupported(f"mv_of({type(x).__name__})")


EMPTY_VEC = Vec(lambda t: z3.BoolVal(False), lambda t: z3.RealVal(0), total=z3.RealVal(0))


def mv_scale(a: MV, c, dim=None) -> MV:
    v = a.vec
    tot = None if v.total is None else c * v.total
    out = Vec(v.inidx, lambda t: c * v.val(t), total=tot, tmax=v.tmax, tmin=v.tmin, n=v.n, origin=v.origin)
    return MV(a.is_empty, out, dim if dim is not None else a.dim)


def mv_add(a: MV, b: MV) -> MV:
    """Empty-neutral addition with fill"""
    ta, tb = a.total0, b.total0
    out = Vec(lambda t: z3.Or(a.inidx(t), b.inidx(t)), lambda t: a.v0(t) + b.v0(t),
              total=None if ta is None or tb is None else ta + tb)
    return MV(z3.And(a.is_empty, b.is_empty), out, a.dim if a.dim is not None else b.dim)


def mv_shift(a: MV, k) -> MV:
    v = a.vec; d = HOUR * k
    out = Vec(lambda t: v.inidx(t - d), lambda t: v.val(t - d), total=v.total)
    return MV(a.is_empty, out, a.dim)


def mv_map(a: MV, f, dim=None) -> MV:
    v = a.vec
    return MV(a.is_empty, Vec(v.inidx, lambda t: f(v.val(t)), total=None, tmax=v.tmax, tmin=v.tmin, n=v.n, origin=v.origin),
              dim if dim is not None else a.dim)


def mv_to_explu(mv: MV, unit: Unit = None, label="spec") -> ExplU:
    u = unit or Unit(mv.dim, z3.Real(f"specunit!{next(_gid)}"))
    e = Expl("ehq", DF(mv.vec, u), Label(True, label))
    return ExplU(mv.is_empty, e)


class FoldMV:
    """ghost  F(i) = sum_{j<i} term(j)  over a symbolic list, Empty-aware, missing hours as zero.
    term(j) -> MV.  F is represented by uninterpreted functions E(i), IN(i,t), S(i,t), T(i); each use at (i,t)
    instantiates the one-step unfolding (definitional axioms of a primitive recursion: consistent)."""
    def __init__(self, I, name, term, dim, with_total=True, idx_name=None, params=()):
        self.I, self.term, self.dim = I, term, dim
        self.params = tuple(params)     # extra arguments of the ghost functions (folds nested in an outer index)
        # canonical naming: two folds with the same summand (as a term in the index J and time T) ARE the same ghost
        # function, so a specification and a library model of sum() that add up the same things agree by construction
        J, T_ = z3.Int("J!"), z3.Int("T!")
        saved = list(I.eng.run.pc)
        pm = term(J)
        cidx = f"{_canon(pm.is_empty)}|{_canon(pm.inidx(T_))}"
        cval = f"{cidx}|{_canon(pm.v0(T_))}"
        I.eng.run.pc[:] = saved
        k = "F[" + _digest(cval) + "]"
        ki = "F[" + _digest(cidx) + "]"
        if self.params:            # nested folds: explicit names (the summand mentions the outer index)
            k, ki = name, (idx_name or name)
        ps = [I_] * len(self.params)
        E_ = z3.Function(f"{ki}.E", *ps, I_, B); IN_ = z3.Function(f"{ki}.IN", *ps, I_, I_, B)
        S_ = z3.Function(f"{k}.S", *ps, I_, I_, R); T_f = z3.Function(f"{k}.T", *ps, I_, R)
        P = self.params
        self.E = lambda i: E_(*P, i); self.IN = lambda i, t: IN_(*P, i, t)
        self.S = lambda i, t: S_(*P, i, t); self.T = lambda i: T_f(*P, i)
        self.with_total = with_total
        self.name = k
        self._done = set()

    def unfold(self, i, t):
        key = (_canon(i), _canon(t), str(self.params))
        run = self.I.eng.run
        done = run.cache.setdefault(("foldmv", self.name), set())
        if key in done: return
        done.add(key)
        eng = self.I.eng
        E, IN, S, T = self.E, self.IN, self.S, self.T
        eng.assume_def(z3.Implies(i <= 0, z3.And(E(i), z3.Not(IN(i, t)), S(i, t) == 0, T(i) == 0)))
        j = z3.simplify(i - 1)
        tm = self.term(j)
        step = [E(i) == z3.And(E(j), tm.is_empty),
                IN(i, t) == z3.Or(IN(j, t), tm.inidx(t)),
                S(i, t) == S(j, t) + tm.v0(t)]
        if self.with_total:
            tt0 = tm.total0
            if tt0 is not None: step.append(T(i) == T(j) + tt0)
        eng.assume_def(z3.Implies(i >= 1, z3.And(*step)))
        # representation invariant of every partial sum: an Empty sum has no index and no value
        eng.assume_def(z3.Implies(E(i), z3.And(z3.Not(IN(i, t)), S(i, t) == 0)))
        if self.with_total: eng.assume_def(z3.Implies(E(i), T(i) == 0))
        eng.assume_def(z3.Implies(z3.Not(IN(i, t)), S(i, t) == 0))

    def at(self, i) -> MV:
        E, IN, S, T = self.E, self.IN, self.S, self.T
        def inidx(t): self.unfold(i, t); return IN(i, t)
        def val(t): self.unfold(i, t); return S(i, t)
        self.unfold(i, TT)
        return MV(E(i), Vec(inidx, val, total=T(i) if self.with_total else None), self.dim)


class FoldQ:
    """ghost  F(i) = sum_{j<i} phys(term(j))  (scalars)"""
    def __init__(self, I, name, term, params=()):
        self.I, self.term = I, term
        self.params = tuple(params)
        if not self.params:
            saved = list(I.eng.run.pc)
            name = "FQ[" + _digest(_canon(term(z3.Int("J!")))) + "]"
            I.eng.run.pc[:] = saved
        self.name = name + str([str(p) for p in self.params])
        S_ = z3.Function(f"{name}.SQ", *([I_] * len(self.params)), I_, R)
        self.S = lambda i: S_(*self.params, i)

    def at(self, i):
        run = self.I.eng.run
        done = run.cache.setdefault(("foldq", self.name), set())
        key = _canon(i)
        if key not in done:
            done.add(key)
            j = z3.simplify(i - 1)
            self.I.eng.assume_def(z3.Implies(i <= 0, self.S(i) == 0))
            self.I.eng.assume_def(z3.Implies(i >= 1, self.S(i) == self.S(j) + self.term(j)))
        return self.S(i)


I_ = I


def fold_sum(I, xs: SList, start):
    """builtin sum(<symbolic list>, start): left fold of `+` (assumed python semantics).  Elements: quantities,
    Empty-or-quantity, Empty-or-hourly.  Result by the contracts of __add__/__radd__: Empty iff every element is Empty."""
    from .contracts import explainable as X
    eng = I.eng
    eng.run.cache["symbolic_loops"] = True
    n = xs.n
    name = f"sum({xs.name})"
    probe = xs.elem(z3.Int(f"{name}.j"))
    start_is_num = isinstance(start, PyNum)
    if start_is_num: I.lib_pre("sum() start value is zero", start.r == 0)
    elif not (isinstance(start, Expl) and start.kind == "empty"): raise Unsupported("sum start")
    if eng.decide(n == 0):
        return start
    pk = probe.nonempty.kind if isinstance(probe, ExplU) else getattr(probe, "kind", None)
    if pk == "eq":
        dim = (probe.nonempty if isinstance(probe, ExplU) else probe).value.unit.dim
        def parts(j):
            e = xs.elem(j)
            if isinstance(e, ExplU):
                I.note_read(e.nonempty); return e.is_empty, e.nonempty.value.phys
            I.note_read(e); return z3.BoolVal(False), e.value.phys
        fq = FoldQ(I, name, lambda j: z3.If(parts(j)[0], z3.RealVal(0), parts(j)[1]))
        fe = FoldB(I, name, lambda j: parts(j)[0])
        unit = Unit(dim, z3.Real(f"{name}.unit")); eng.assume_def(unit.f > 0)
        res = Expl("eq", Qty(fq.at(n), unit), Label(False), left=Opaque("partial sum"), right=xs.elem(n - 1), operator="+",
                   anc=frozenset([(xs.name, "*")]))
        if isinstance(probe, ExplU):
            induct(I, f"sum of all-Empty elements is zero [{fq.name}]", lambda k: z3.Implies(fe.at(k), fq.at(k) == 0), n)
            return ExplU(fe.at(n), res)
        return res
    if pk == "ehq":
        dim = probe.nonempty.value.unit.dim if isinstance(probe, ExplU) else probe.value.unit.dim
        f = FoldMV(I, name, lambda j: mv_of(xs.elem(j)), dim)
        for j_ in (n - 1,):
            e = xs.elem(j_)
            I.note_read(e.nonempty if isinstance(e, ExplU) else e)
        u = mv_to_explu(f.at(n))
        u.nonempty.anc = frozenset([(xs.name, "*")]); u.nonempty.left = Opaque("partial sum"); u.nonempty.operator = "+"
        u.nonempty.label = Label(False)
        return u
    raise Unsupported(f"sum over list of {type(probe).__name__}")


def induct(I, name, P, at):
    """prove  forall k >= 0. P(k)  by induction (two obligations: base, step) and use it at `at`"""
    eng = I.eng
    key = ("induct", name)
    if key not in eng.run.cache:
        eng.run.cache[key] = True
        eng.oblige(f"lemma/{name}/base", P(z3.IntVal(0)), kind="lemma")
        k = eng.fresh("k_ind", I_)
        saved = list(eng.run.pc)
        eng.assume(k >= 0); eng.assume(P(k))
        eng.oblige(f"lemma/{name}/step", P(k + 1), kind="lemma")
        eng.run.pc[:] = saved
    eng.assume_def(z3.Implies(at >= 0, P(at)))


class FoldB:
    """ghost  AllEmpty(i) = forall j<i. empty(j)"""
    def __init__(self, I, name, term):
        self.I, self.term = I, term
        saved = list(I.eng.run.pc)
        name = "FB[" + _digest(_canon(term(z3.Int("J!")))) + "]"
        I.eng.run.pc[:] = saved
        self.name = name
        self.A = z3.Function(f"{name}.AE", I_, B)

    def at(self, i):
        run = self.I.eng.run
        done = run.cache.setdefault(("foldb", self.name), set())
        key = _canon(i)
        if key not in done:
            done.add(key)
            j = z3.simplify(i - 1)
            self.I.eng.assume_def(z3.Implies(i <= 0, self.A(i)))
            self.I.eng.assume_def(z3.Implies(i >= 1, self.A(i) == z3.And(self.A(j), self.term(j))))
        return self.A(i)
