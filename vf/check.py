"""./check <ID> --tier quick|thorough : decide one property.

P tier: verification conditions generated from /repo's current source, discharged by z3 (unknowns re-asked to cvc5).
B tier: the bounded stand-in of the property (run-time twin on the real code), never counted as proved.
Exit 0: held on everything explored (known findings are printed, not alarmed).  Exit 1: `VIOLATION property=.. replay=..`.
Exit 3: the checker itself is broken (vacuity guard, crash).  UNDECIDED(tool) obligations are printed and left to the
bounded tier; they are never reported as violations.
"""
from __future__ import annotations
import argparse, json, os, sys, time, importlib, hashlib, subprocess, traceback

ROOT = os.path.dirname(os.path.dirname(os.path.abspath(__file__)))


def load_known():
    p = os.path.join(ROOT, "known_findings.json")
    if not os.path.exists(p): return {"findings": [], "fixed": []}
    return json.load(open(p))


def match_known(known, prop, tier, function=None, obligation=None, signature=None):
    for f in known["findings"]:
        if f.get("tier") != tier: continue
        if prop not in f.get("properties", [f.get("property")]): continue
        if tier == "P":
            if f["function"] in (function or "") and any(ob in (obligation or "") for ob in f["obligations"]):
                return f
        else:
            if signature is not None and f.get("signature") == signature:
                return f
    return None


def cvc5_recheck(smt2, timeout=20):
    try:
        r = subprocess.run(["/usr/bin/cvc5", "--lang=smt2", f"--tlimit={timeout * 1000}", "-"], input=smt2, text=True,
                           capture_output=True, timeout=timeout + 5)
        return r.stdout.strip().splitlines()[0] if r.stdout.strip() else "unknown"
    except Exception as e:
        return f"error: {e}"


def main(argv=None):
    ap = argparse.ArgumentParser()
    ap.add_argument("prop")
    ap.add_argument("--tier", default=os.environ.get("VERIF_TIER", "quick"), choices=["quick", "thorough"])
    ap.add_argument("--seed", type=int, default=int(os.environ.get("VERIF_SEED", "0")))
    ap.add_argument("--replay", default=None)
    ap.add_argument("--no-bounded", action="store_true")
    ap.add_argument("--no-proof", action="store_true")
    ap.add_argument("--procs", type=int, default=16)
    a = ap.parse_args(argv)
    t0 = time.time()
    from . import props as PR
    if a.prop not in PR.PROPS:
        print(f"property {a.prop} has no check (see MANIFEST.json not_applicable)"); return 3
    cfg = PR.PROPS[a.prop]
    known = load_known()
    if a.replay:
        return replay(a, cfg)
    out_lines, violations, known_hits, undecided = [], [], [], []
    ev = {"property_id": a.prop, "tier": a.tier, "seed": a.seed, "level": cfg["level"], "coverage": {}, "assumptions": [],
          "wall_s": 0.0, "violations": 0}
    cov = ev["coverage"]
    # ------------------------------------------------------------------ P tier
    pstats = None
    if not a.no_proof and cfg.get("jobs"):
        try:
            pstats = run_proof(a, cfg, known, violations, known_hits, undecided)
        except Exception:
            print("checker crashed in the proof tier:\n" + traceback.format_exc()); return 3
        if pstats.get("broken"):
            print("CHECKER-BROKEN: " + pstats["broken"]); return 3
    # ------------------------------------------------------------------ B tier
    bstats = None
    if not a.no_bounded and cfg.get("bounded"):
        try:
            mod = importlib.import_module(f"vf.bounded.{cfg['bounded']}")
        except ImportError:
            mod = None
        if mod is not None:
            try:
                bstats = mod.run(a.tier, a.seed, procs=a.procs)
            except Exception:
                # refuted obligations of the proof tier are still reported below; without any, a crashed harness is exit 3
                bcrash = traceback.format_exc(); bstats = {"violations": [], "evaluations": 0, "crashed": bcrash[-600:]}
                print("checker crashed in the bounded tier:\n" + bcrash)
                if not violations: return 3
            try:
                from vf.bounded import harness as _H
                btimeouts = list(_H.TIMEOUTS)
            except Exception:
                btimeouts = []
            bstats["timed_out_cases"] = btimeouts[:20]
            for v in bstats.get("violations", []):
                k = match_known(known, a.prop, "B", signature=v.get("signature"))
                if k: known_hits.append((k, v))
                else: violations.append({"tier": "B", **v})
    # ------------------------------------------------------------------ counterexamples for refuted obligations
    # a refuted obligation comes with the solver's model (symbolic level); the failing INPUT replayed on the real code is taken
    # from the bounded twin of the same contract when it finds one (preferring a case that names the same function)
    bviol = [v for v in violations if v.get("tier") == "B" and v.get("input") is not None]
    for v in violations:
        if v.get("tier") == "P" and v.get("input") is None and bviol:
            fn = v["function"].split(".")[-1].split(" ")[0]
            pick = next((b for b in bviol if fn in str(b.get("what", "")) or fn in str(b.get("input", ""))), bviol[0])
            v["input"] = {"found_by": "bounded run-time twin of the same contract", **(pick["input"] if isinstance(pick["input"], dict) else {"case": pick["input"]})}
            v["native_observation"] = pick.get("what")
    # ------------------------------------------------------------------ report
    seen = set()
    for k, v in known_hits:
        if k["id"] in seen: continue
        seen.add(k["id"])
        print(f"KNOWN-FINDING: property={a.prop} {k['id']}: {k['what']}")
    for u in undecided[:20]:
        print(f"UNDECIDED obligation={u['name'][:150]} reason={str(u.get('model'))[:160]}")
    for t in (bstats or {}).get("timed_out_cases", [])[:10]:
        print(f"UNDECIDED bounded-case={t[:200]} reason=did not finish within the per-case wall-clock limit (never counted as a violation)")
    rc = 0
    os.makedirs(os.path.join(ROOT, "replays", a.prop), exist_ok=True)
    for n, v in enumerate(violations):
        path = os.path.join("replays", a.prop, f"{v.get('tier')}-{n}.json")
        json.dump(v, open(os.path.join(ROOT, path), "w"), indent=1, default=str)
        tail = "" if v.get("input") is not None else " no-failing-input-found"
        print(f"VIOLATION property={a.prop} replay={path}{tail}")
        print(f"   {v.get('what', '')[:300]}")
        rc = 1
        if n >= 9:
            print(f"   ... {len(violations) - 10} more"); break
    # ------------------------------------------------------------------ evidence
    if pstats:
        cov.update({"obligations": pstats["obligations"], "discharged": pstats["discharged"],
                    "checker_cmd": f"./check {a.prop} --tier {a.tier}", "trusted_base": pstats["trusted"],
                    "functions_under_contract": pstats["functions"], "backends": pstats["backends"],
                    "solver_time_s": pstats["solver_time"], "undecided_tool": len(undecided),
                    "known_finding_obligations": pstats["known_obligations"], "paths_reachable": pstats["covers"],
                    "jobs": pstats["jobs"], "obligation_kinds": pstats["kinds"]})
        cov["samples"] = pstats["samples"]
    if bstats:
        cov["bounded"] = {k: bstats[k] for k in bstats if k not in ("violations",)}
        cov.setdefault("evaluations", bstats.get("evaluations", 0))
        cov.setdefault("distinct_nontrivial", bstats.get("distinct_nontrivial", 0))
        cov.setdefault("rule", bstats.get("rule", ""))
        cov.setdefault("samples", [])
        cov["samples"] = (cov.get("samples") or []) + list(bstats.get("samples", []))[:5]
        cov["exhaustive"] = bool(bstats.get("exhaustive", False))
    cov["explanation"] = cfg["technique"] + ". P = obligations discharged by the solver from the real source (counted in obligations/discharged); " \
        "B = bounded stand-in on the real code (counted under coverage.bounded, never as proved)."
    ev["assumptions"] = list(PR.COMMON_ASSUMPTIONS) + list(cfg.get("assumptions", [])) + (pstats["libspec"] if pstats else [])
    ev["violations"] = len(violations)
    ev["known_findings"] = sorted(seen)
    ev["wall_s"] = round(time.time() - t0, 2)
    if ev["level"] == "proof" and pstats and (pstats["obligations"] != pstats["discharged"] or undecided) and not violations:
        ev["level"] = "other"
    # evidence of runs against a scratch copy of the repository (VF_REPO, used to evaluate seeded changes) is kept apart
    evdir = "evidence" if os.environ.get("VF_REPO", "/repo") == "/repo" else os.path.join(".cache", "evidence_scratch")
    os.makedirs(os.path.join(ROOT, evdir), exist_ok=True)
    json.dump(ev, open(os.path.join(ROOT, evdir, f"{a.prop}.json"), "w"), indent=1, default=str)
    p = pstats or {}
    print(f"{a.prop} [{a.tier}] P: {p.get('discharged', 0)}/{p.get('obligations', 0)} obligations discharged over {len(p.get('functions', []))} functions"
          f" ({len(undecided)} undecided-tool, {len(p.get('known_obligations', []))} known-finding); "
          f"B: {bstats.get('evaluations', 0) if bstats else 0} evaluations; violations: {len(violations)}; {ev['wall_s']}s")
    return rc


def run_proof(a, cfg, known, violations, known_hits, undecided):
    from . import jobs as J
    from . import libspec
    all_jobs = [j for j, g in J.list_jobs() if cfg["jobs"](j)]
    if not all_jobs:
        return {"broken": "no verification job selected"}
    results = J.run_jobs(all_jobs, procs=a.procs)
    st = {"obligations": 0, "discharged": 0, "functions": [], "solver_time": 0.0, "backends": {"z3": 0, "cvc5": 0},
          "known_obligations": [], "covers": {"reachable": 0, "total": 0}, "samples": [], "jobs": len(all_jobs), "kinds": {},
          "trusted": ["z3 " + __import__("z3").get_version_string(), "the VC generator vf/ (AST -> SMT)", "vf/libspec.py (library contracts, validated not proved)",
                      "CPython semantics as modelled in vf/interp.py"],
          "libspec": [f"libspec: {k}: {v}" for k, v in libspec.ASSUMED.items()]}
    fseen = set()
    nsel = 0
    for r in results:
        if r["error"]:
            return {"broken": f"job {r['job']} crashed: {r['error'][:400]}"}
        if r.get("timeout"):
            undecided.append({"name": f"{r['job']} (every obligation of this job)", "model": f"the job did not finish within {r['timeout']} s of wall-clock time, twice"})
            continue
        for f in r["functions"]:
            if f["function"] not in fseen:
                fseen.add(f["function"]); st["functions"].append(f)
        for o in r["obligations"]:
            if o["kind"] == "cover":
                st["covers"]["total"] += 1
                if o["status"] == "refuted": st["covers"]["reachable"] += 1
                continue
            if o["status"] == "undecided-tool":
                undecided.append(o); continue
            if not cfg["obl"](o): continue
            nsel += 1
            st["kinds"][o["kind"]] = st["kinds"].get(o["kind"], 0) + 1
            st["solver_time"] += o["time"]
            k = match_known(known, a.prop, "P", function=o["case"], obligation=o["name"])
            if o["status"] == "proved":
                st["backends"]["z3"] += 1
                if k is None:
                    st["obligations"] += 1; st["discharged"] += 1
                else:
                    st["known_obligations"].append({"obligation": o["name"], "case": o["case"], "status": "proved", "finding": k["id"]})
                if len(st["samples"]) < 4 and o["kind"] in ("post", "inv", "frame") and o["nhyps"] > 3:
                    st["samples"].append({"obligation": o["name"], "case": o["case"], "kind": o["kind"], "hypotheses": o["nhyps"],
                                          "backend": "z3", "time_s": o["time"]})
                continue
            if k is not None:
                st["known_obligations"].append({"obligation": o["name"], "case": o["case"], "status": o["status"], "finding": k["id"]})
                known_hits.append((k, o)); continue
            st["obligations"] += 1
            if o["status"] == "unknown":
                undecided.append({"name": o["name"] + " @ " + o["case"], "model": "solver returned unknown: " + str(o["model"])})
                continue
            violations.append({"tier": "P", "obligation": o["name"], "case": o["case"], "function": o["function"], "status": o["status"],
                               "solver_output": o["model"], "input": None,
                               "what": f"obligation '{o['name']}' of {o['case']} is refuted by z3 (it is discharged on the reference tree)"})
    st["solver_time"] = round(st["solver_time"], 3)
    if nsel == 0:
        return {"broken": "zero obligations generated for this property (vacuity guard)"}
    if st["covers"]["total"] and st["covers"]["reachable"] == 0:
        return {"broken": "no execution path of any function under contract is satisfiable (vacuity guard)"}
    return st


def replay(a, cfg):
    """re-execute a recorded violation on the current tree: exit 1 if it is reproduced, 0 if not"""
    v = json.load(open(a.replay if os.path.isabs(a.replay) else os.path.join(ROOT, a.replay)))
    print("replaying:", json.dumps({k: v.get(k) for k in ("tier", "signature", "obligation", "case", "input")}, default=str)[:1500])
    if v.get("tier") == "B" and cfg.get("bounded"):
        mod = importlib.import_module(f"vf.bounded.{cfg['bounded']}")
        for tier in ("quick", "thorough"):
            st = mod.run(tier, a.seed, procs=a.procs)
            hit = [x for x in st.get("violations", []) if x.get("signature") == v.get("signature") or x.get("input") == v.get("input")]
            if hit:
                print(f"VIOLATION property={a.prop} replay={a.replay}"); print("   reproduced: " + str(hit[0].get("what"))[:400]); return 1
        print("not reproduced on this tree"); return 0
    from . import jobs as J
    job_ids = [j for j, g in J.list_jobs() if cfg.get("jobs") and cfg["jobs"](j)]
    for r in J.run_jobs(job_ids, procs=a.procs):
        for o in r["obligations"]:
            if o["name"] == v.get("obligation") and o["case"] == v.get("case") and o["status"] not in ("proved",):
                print(f"VIOLATION property={a.prop} replay={a.replay}" + ("" if v.get("input") else " no-failing-input-found"))
                print(f"   reproduced: obligation {o['name']} is {o['status']}: {str(o['model'])[:300]}"); return 1
    print("not reproduced on this tree"); return 0


if __name__ == "__main__":
    sys.exit(main())
