"""Trusted library contracts over the views (DESIGN.md 2.3): pandas / pint / numpy operations used by the functions
under contract.  Each entry is an ASSUMPTION; `vf.libvalidate` checks them differentially against the real libraries.

Series are `Vec`s (shallow: closures).  `total` / `prefix` are computed structurally where the finite-sum lemmas
(shift invariance, additivity with fill, scaling -- lean/Sums.lean) determine them, and are `None` otherwise.
"""
import z3
from .sym import *

ASSUMED = {}   # name -> text, filled by @lib


def lib(name, text):
    def deco(f):
        ASSUMED[name] = text
        f.libname = name
        return f
    return deco


def _opt(a, b, f):
    return None if a is None or b is None else f(a, b)


@lib("DataFrame.shift(k, freq='h')", "index moves by k hours, values unchanged: inidx'(t)=inidx(t-60k), val'(t)=val(t-60k), total'=total, prefix'(t)=prefix(t-60k)")
def vshift(v: Vec, k):
    d = HOUR * k
    pf = getattr(v, "prefix", None)
    out = Vec(lambda t: v.inidx(t - d), lambda t: v.val(t - d), total=v.total,
              tmax=None if v.tmax is None else v.tmax + d, tmin=None if v.tmin is None else v.tmin + d, n=v.n)
    if pf is not None:
        out.prefix = lambda t: pf(t - d)
    out.shift_of = (v, d)
    return out


@lib("DataFrame.add(other, fill_value=0)", "union index, val'(t)=v0(a,t)+v0(b,t), total'=total(a)+total(b); unit of the receiver")
def vaddfill(a: Vec, b: Vec):
    out = Vec(lambda t: z3.Or(a.inidx(t), b.inidx(t)), lambda t: a.v0(t) + b.v0(t),
              total=_opt(a.total, b.total, lambda x, y: x + y))
    pa, pb = getattr(a, "prefix", None), getattr(b, "prefix", None)
    if pa is not None and pb is not None:
        out.prefix = lambda t: pa(t) + pb(t)
    return out


@lib("DataFrame * scalar", "same index, val'(t)=c*val(t), total'=c*total")
def vscale(a: Vec, c):
    out = Vec(a.inidx, lambda t: c * a.val(t), total=None if a.total is None else c * a.total,
              tmax=a.tmax, tmin=a.tmin, n=a.n, origin=a.origin)
    pa = getattr(a, "prefix", None)
    if pa is not None:
        out.prefix = lambda t: c * pa(t)
    return out


@lib("DataFrame.mul(other DataFrame, fill_value=0)", "union index, val'(t)=v0(a,t)*v0(b,t)")
def vmulfill(a: Vec, b: Vec):
    return Vec(lambda t: z3.Or(a.inidx(t), b.inidx(t)), lambda t: a.v0(t) * b.v0(t), total=None)


@lib("elementwise map on .values (np.abs / np.ceil / unary minus / np.round)", "same index and positions, val'(t)=f(val(t))")
def vmap(a: Vec, f, total=None):
    return Vec(a.inidx, lambda t: f(a.val(t)), total=total, tmax=a.tmax, tmin=a.tmin, n=a.n, origin=a.origin)


@lib("DataFrame - DataFrame / DataFrame + DataFrame (no fill)", "defined only on equal indexes (else NaN rows, which the views do not have): PRECONDITION inidx(a,t)=inidx(b,t)")
def vpointwise_same_index(a: Vec, b: Vec, f):
    return Vec(a.inidx, lambda t: f(a.val(t), b.val(t)), total=None, tmax=a.tmax, tmin=a.tmin, n=a.n, origin=a.origin)


@lib("DataFrame.cumsum()", "same index, val'(t)=prefix(a,t)=sum of val(s) for s<=t in the index")
def vcumsum(a: Vec):
    pa = getattr(a, "prefix", None)
    if pa is None:
        raise LibUnsupported("cumsum of a series without structural prefix")
    return Vec(a.inidx, lambda t: pa(t), total=None, tmax=a.tmax, tmin=a.tmin, n=a.n, origin=a.origin)


@lib("boolean mask selection df[mask]", "index restricted to rows where mask holds, values unchanged")
def vfilter(a: Vec, mask):
    return Vec(lambda t: z3.And(a.inidx(t), mask(t)), a._val, total=None)


class LibUnsupported(Exception):
    pass


ASSUMED["Series.sum()"] = "returns total(a) in the series unit"
ASSUMED["Series.max()/min()"] = "returns m with val(t) <= m (>= m) for every t in the index, attained at some index point when the series is non-empty"
ASSUMED["Series.mean()"] = "total(a)/len(a)"
ASSUMED["Quantity arithmetic (+ - * /), comparison, .to(unit), .magnitude"] = (
    "pint: phys-level arithmetic; + - and comparisons require equal dimension else DimensionalityError; "
    ".to(unit) keeps phys and raises DimensionalityError iff dimensions differ; .magnitude = phys/factor(unit)")
ASSUMED["np.full(n, c) / np.ones(n) / np.zeros(n)"] = "length-n positional array with constant value; a Quantity fill value is stored as its bare magnitude"
ASSUMED["np.maximum / np.minimum on .to_numpy() arrays"] = "positional: PRECONDITION same length and same index, result mag'(t)=max/min(mag a(t), mag b(t))"
ASSUMED["pint_pandas.PintArray(arr, dtype=unit) / pd.DataFrame({'value': arr}, index=idx)"] = (
    "phys(t)=mag(t)*factor(unit) at the position of t; PRECONDITION len(arr)=len(idx) and arr positions are idx's")
ASSUMED["copy(x) / df.copy()"] = "fresh object, equal view"
ASSUMED["math.floor / math.ceil / np.ceil on scalars"] = "mathematical floor / ceiling"
ASSUMED["DatetimeIndex sorted increasing"] = "every series index is strictly increasing (positional alignment of equal index sets)"
