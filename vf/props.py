"""Per-property configuration: which P-tier jobs and which of their obligations decide the property, which bounded
(B-tier) module stands in for what the generator cannot reach, claimed level and trusted base."""
from __future__ import annotations

EXPL = lambda j: j.startswith("explainable:") or j.startswith("units:")
ANY = lambda j: True


def upd(*names):
    return lambda j: j == "avg" and "avg" in names or (j.startswith("update:") and any(n in j for n in names))


def kinds(*ks):
    return lambda o: o["kind"] in ks


def name_has(*subs):
    return lambda o: any(s in o["name"] for s in subs)


ALL_OBL = lambda o: o["kind"] != "cover"

COMMON_ASSUMPTIONS = [
    "A-REAL: python floats are treated as mathematical reals in every solver-discharged obligation",
    "A-LIB: pandas / pint / numpy operations behave as their contracts in vf/libspec.py state (validated differentially in the bounded tier, not proved)",
    "A-PY: python semantics assumed by the VC generator (DESIGN.md 2.4): left-to-right evaluation, sum() = left fold of +, operator dispatch with reflected methods, comprehensions",
    "A-LOG: logger calls and label text (other than emptiness) are not interpreted",
    "A-SORTED: every hourly index is strictly increasing (positional alignment of equal index sets)",
    "input invariants as preconditions: quantity inputs are non-negative except data_stored (what validation enforces), every device has non-zero lifespan / usage fraction; user lists (uj_steps, jobs of a step, devices) MAY repeat an element and are folded positionally; the set-derived look-ups the rules iterate (server.jobs, network.jobs, system.servers ...) list each object once: proved by the look-up jobs (C02 evidence) from the reverse index modeling_obj_containers, which is assumed exact and duplicate free (its maintenance is C16, bounded tier)",
    "consistent-state invariants of calculated attributes read by an update rule (schema kind, dimension, fixed unit, index relations) are assumed at the read and established by the attribute's own update contract",
]

PROPS = {
    "C09": dict(jobs=EXPL, obl=ALL_OBL, bounded="c09", level="proof", design="4 C09",
                technique="contracts on every operator of the explainable classes, VCs generated from the real AST and discharged by z3 (loop-free, full symbolic domain); run-time twin of the same contracts on real pandas/pint objects over an enumerated operand domain"),
    "C07": dict(jobs=ANY, obl=lambda o: any(s in o["name"] for s in ("_parent recorded", "operator recorded", "label", "recorded ancestors", "/value/", "attach/")),
                bounded="c07", level="other", design="4 C07",
                technique="P: contracts of the operators pin (left_parent, right_parent, operator) and value = op(operands) for every method, and every update rule attaches a labelled value; B: re-evaluation of every node of every explanation tree of computed systems with pint"),
    "C03": dict(jobs=lambda j: "return_shifted_hourly_quantities" in j or upd("avg", "compute_hourly_occurrences", "compute_hourly_data_exchange", "sum_calculated_attribute", "update_nb_usage_journeys_in_parallel",
                         "update_devices_energy|", "update_hour_by_hour", "update_duration", "_per_usage_pattern")(j),
                obl=ALL_OBL, bounded="c03", level="proof", design="4 C03",
                technique="contracts with ghost recursive sums and loop invariants on the real job / usage-pattern / server update functions; conservation totals proved by induction inside the loop invariants; z3"),
    "C04": dict(jobs=upd("update_available_", "update_raw_nb_of_instances", "update_nb_of_instances", "storage_needed", "storage_freed",
                         "automatic_storage_dumps", "update_storage_delta", "update_full_cumulative", "update_nb_of_active", "update_occupied_"),
                obl=ALL_OBL, bounded="c04", level="other", design="4 C04",
                technique="contracts on the sizing functions of ServerBase and Storage (raise-iff, nb >= raw, ceilings, active <= provisioned, same-index preconditions of positional operations); floating-point clause and window lemma by bounded twin"),
    "C02": dict(jobs=lambda j: j.startswith("lookup:") or upd("update_energy_footprint", "update_instances_fabrication_footprint", "update_devices_energy_footprint", "update_total_footprint",
                         "System", "Network", "_per_usage_pattern")(j),
                obl=ALL_OBL, bounded="c02", level="other", design="4 C02",
                technique="contracts: footprint = energy x the carbon intensity that applies (per usage pattern country for the network, nested ghost folds), fabrication formula, system total = every server, storage, network and usage pattern once (System.update_total_footprint); the derived look-ups those contracts iterate (System.servers / storages / networks, Network.jobs, ServerBase.jobs, Storage.jobs, JobBase.usage_patterns ... 22 properties) proved from their real source to list exactly the objects of their defining relation, each once; bounded twin over sharing topologies"),
    "C10": dict(jobs=lambda j: j.startswith("update:") or j == "avg" or j.startswith("units:") or (j.startswith("explainable:") and j.endswith((".__eq__", ".to", ".__lt__", ".__gt__"))), obl=lambda o: o["kind"] in ("post", "pre", "libpre", "units", "frame") and "cover" not in o["name"],
                bounded="c10", level="proof", design="4 C12/C10",
                technique="every contract is stated on physical (base-unit) values and proved with the unit conversion factor of every input left symbolic (> 0): unit independence by construction; bare-magnitude reads fail the proof unless preceded by .to(<literal unit>); equality / ordering / conversion operators compare and convert physical values (an edit to the same number in another unit is a change)"),
    "C12": dict(jobs=lambda j: j.startswith("lemma:C12") or (j.startswith("explainable:") and j.endswith((".__eq__", ".__mul__", ".__rmul__", ".__truediv__", ".__rtruediv__", ".__add__", ".__radd__", ".__sub__", ".__rsub__"))) or upd("update_instances_energy", "update_instances_fabrication_footprint", "update_energy_footprint", "update_devices_",
                         "Network", "update_hour_by_hour", "update_nb_usage_journeys")(j), obl=ALL_OBL, bounded="c12", level="proof", design="4 C12/C10",
                technique="homogeneity lemmas over the functional specifications the update rules are proved equal to (z3), plus the proofs of those equalities; the arithmetic operators the rules are built from are proved to compute the product / quotient / sum of physical values AND to record both operands as parents (a driver that is not an ancestor of a footprint cannot propagate to it)"),
    "C18": dict(jobs=lambda j: j.startswith("update:"), obl=kinds("frame", "order"), bounded="c18", level="other", design="4 C18",
                technique="frame contracts of every update rule (writes exactly its attribute, leaves every model value physically unchanged) and read-set order obligations against calculated_attributes / CANONICAL_COMPUTATION_ORDER read from the real classes; second-pass twin on real systems"),
    "C19": dict(jobs=lambda j: j.startswith("update:"), obl=lambda o: "order-independence" in o["name"] or o["kind"] == "inv" or "loop" in o["name"],
                bounded="c19", level="other", design="4 C19",
                technique="every loop over a set-derived collection is proved against a commutative fold (order independence in real arithmetic); permutation / hash-seed twin on real systems"),
}

PROPS["C01"] = dict(jobs=lambda j: j.startswith("effects:") or j.startswith("chain:"), obl=lambda o: "C01" in o["name"] or "effect profile" in o["name"] or "optimize_attr_updates_chain" in o["function"], bounded="c01", level="other", design="4 C01/C15",
                    technique="bounded stand-in (whole-history property, no per-function contract states it): live system after every single edit and sampled/all pairs of edits vs a system built from the edited specification, on 7 sharing topologies; local clauses (frames, read order, chain contracts) are proved under C18/C08")

PROPS["C16"] = dict(jobs=None, obl=None, bounded="c16", level="other", design="4 C16",
                    technique="bounded stand-in: histories of 1-3 link/list operations (full alphabet, present/absent/duplicate/no-op arguments) on 4 topologies; after every operation forward links vs every reverse look-up, list content vs python mirror, deletion guard, system exclusivity")

PROPS["C14"] = dict(jobs=lambda j: j.startswith("effects:") or j.startswith("validator:"), obl=lambda o: "C14" in o["name"] or "effect profile" in o["name"], bounded="c14", level="other", design="4 C14",
                    technique="P: the validator check_input_value_type_positivity_and_unit executed from its real source for every (class, constructor parameter) read from the real signatures x every kind of value with a symbolic magnitude: refused exactly when invalid (type, dimension against the real default, sign against the real list of parameters that may be negative, class of list elements); effect order of ModelingUpdate.__init__ (validation before any write); bounded stand-in, exhaustive over its finite domain: every parameter of every public class x every applicable kind of invalid value x {construction, assignment in a live system}; exception required and whole-model snapshot (values, identities, links) unchanged after a refused assignment")

PROPS["C15"] = dict(jobs=None, obl=None, bounded="c15", level="other", design="4 C01/C15",
                    technique="bounded stand-in: 7 failure points x re-assignment style x one/two failures x follow-up edits; model after recovery vs before the failure (values, inputs, graph links) and vs a fresh build after a further edit")

PROPS["C05"] = dict(jobs=lambda j: j.startswith("effects:") or j.startswith("graph:"), obl=lambda o: "C05" in o["name"] or "effect profile" in o["name"] or "explainable_object_base_class.ExplainableObject." in o["function"] and o["kind"] != "cover", bounded="c05", level="other", design="4 C05/C06",
                    technique="P: effect order of ModelingUpdate.__init__ and the graph layer used when values are swapped in and out (add_child / remove_child / set_modeling_obj_container contracts); bounded stand-in: dated simulations (numeric / link / list / mixed / invalid / failing change lists x 6 dates x toggle sequences) on real systems; identities, values, links, reverse links and graph edge sets compared with the baseline")
PROPS["C06"] = dict(jobs=lambda j: j.startswith("effects:"), obl=lambda o: "C06" in o["name"] or "effect profile" in o["name"], bounded="c06", level="other", design="4 C05/C06",
                    technique="P (statement-level facts of ModelingUpdate.__init__ only): the date is stored unchanged, a naive date is refused before any model write; bounded stand-in: first-hour simulation vs really applying the changes on a twin system; no simulated hour before the date; twins paired both ways; bad dates refused")

PROPS["C08"] = dict(jobs=ANY, obl=lambda o: o["kind"] == "order" or any(x in o["name"] for x in ("recorded ancestors", "_parent recorded", "completeness")) or "optimize_attr_updates_chain" in o["function"] or (o["function"].split(" ")[0].endswith(("add_child_to_direct_children_with_id", "remove_child_from_direct_children_with_id", "ExplainableObject.set_modeling_obj_container", "return_direct_ancestors_with_id_to_child", "ExplainableObject.__init__")) and o["kind"] != "cover"), bounded="c08", level="other", design="4 C08",
                    technique="P: every operator / helper contract pins the parents recorded on its result and the recorded-ancestor set (what the dependency edges are built from); the graph layer itself (add_child / remove_child refine set insertion / removal on a duplicate-free id list; set_modeling_obj_container, checked against those contracts over a ghost heap, leaves both ends of every edge in agreement; return_direct_ancestors_with_id_to_child and the ancestor collection of ExplainableObject.__init__: recorded ancestor ids = union of what the parents hand down, each once); B: graph consistency (both ends, held values only, acyclic) as built / after edits / after simulations and toggles; completeness by perturbing every quantity input and rebuilding; update order of every input")

PROPS["C11"] = dict(jobs=None, obl=None, bounded="c11", level="other", design="4 C11",
                    technique="bounded stand-in: convert_to_utc on series straddling the offset transitions of IANA zones vs an oracle computed from the pytz transition tables (total, strictly increasing unique index, placement at local time minus offset in force, skipped/repeated hours merged next to the transition)")
PROPS["C20"] = dict(jobs=lambda j: j.startswith("timebuilder:"), obl=ALL_OBL, bounded="c20", level="other", design="4 C20",
                    technique="P: contracts on create_hourly_usage_df_from_list and create_hourly_usage_from_frequency (all frequencies, default / given active days and hours, calendar fields as uninterpreted functions of the instant, loop invariant over the value array); B: every hourly-series helper vs an oracle written with datetime arithmetic only (index, unit, values; calendar rules incl. leap years, year ends, non-midnight starts, partial days)")

PROPS["C13"] = dict(jobs=None, obl=None, bounded="c13", level="other", design="4 C13",
                    technique="bounded stand-in: whole-system JSON round trips (through text) of core topologies, edit histories and a system with every builder class: ids, classes, links, labels, sources, inputs, recomputed results, re-export equality, liveness, previous-major-version file")

PROPS["C17"] = dict(jobs=upd("VideoStreamingJob", "GPUServer", "GenAI", "update_occupied_", "update:BoaviztaCloudServer|"), obl=ALL_OBL, bounded="c17", level="other", design="4 C17",
                    technique="P: contracts on the derived-parameter rules of VideoStreamingJob (all 7 resolutions), GenAIJob, GenAIModel, GPUServer, BoaviztaCloudServer (value-for-value extraction from a symbolic API response) and on the server's occupied resources (service base consumption added), incl. completeness of recorded ancestors (refresh); B: builder systems over every resolution / technology / model-parameter kind / sampled instance types: derived parameters vs the stated rules recomputed independently, footprints vs the plain twin model, refresh after every builder-input change vs a fresh build")

PROPS["C02"]["assumptions"] = [
    "A-INDEX: modeling_obj_containers (the reverse index kept by the link layer) lists exactly the objects that reference an object, each once; its maintenance is property C16 (bounded tier)",
    "A-DISJOINT: a service job holds no server link of its own and belongs to exactly one service (used only for 'ServerBase.jobs lists no job twice')",
    "A-UUID: object ids are pairwise distinct (dictionaries keyed by id are keyed by object)"]
for _p in ("C05", "C08", "C01"):
    PROPS[_p]["assumptions"] = PROPS[_p].get("assumptions", []) + [
        "A-LISTCOMP: a filter comprehension over a list yields the order-preserving sub-list of the elements satisfying the test (stated as definitional facts about a fresh list)",
        "A-ID: the id of an attached value is a function of (attribute name, container id) and a value without container has none (the real `id` property formats exactly these two and raises otherwise)",
        "callee contracts used at call sites: add_child / remove_child as set insertion / removal on has(node, id) (each proved in its own job); return_direct_ancestors_with_id_to_child hands down a list without repeated ids (proved in its own job)"]
PROPS["C14"]["assumptions"] = ["A-PYOBJ: inspect.signature, typing.get_origin / get_args, isinstance / issubclass on concrete classes are evaluated by Python itself on the real annotation objects",
                               "the validator contract treats EmptyExplainableObject as accepted for every parameter (for links and names the operation is refused further down before any write: bounded tier)"]
PROPS["C06"]["assumptions"] = ["the two proof-tier obligations are statement-level facts of ModelingUpdate.__init__ (shape of an assignment, position of a raise); anything else about C06 is decided by the bounded tier only"]

NOT_BUILT = {}
